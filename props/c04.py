"""C04  Products, quotients and integer powers of quantities are dimensionally exact.

eval::mul, eval::div (Compound::mul, reconstruct, bases_match, inner_match, Compound::new) and eval::pow executed from
the dev AND release MIR on two quantities (x, U1), (y, U2): unbounded symbolic magnitudes, units concrete per job,
powers solver variables.  Whatever units `reconstruct` chooses for the result (v, R), on every path z3 proves
        v * F(R) == x*F(U1) * (y*F(U2))^(+1|-1)          (F: multiplicative SI factor from the units' declared scales)
        dim_ref(R) == dim_ref(U1) +/- dim_ref(U2)          (formula over the symbolic powers)
        no entry of R has power 0                          (Compound::new's invariant; also where the debug assertion is compiled out)
        division by an exact zero is DivideByZero, nothing else is refused.
For powers:  (x, U)^n for symbolic integer n: value x^n, SI value (x*F(U))^n, dimension n*dim_ref(U); a zero power is the
dimensionless one; zero to a negative power is an error.
"""
import z3, sys, itertools, random
from fractions import Fraction
import harness, rt
from mirsym import *
from models import num as mnum
from spec import units as U
from props import unitlib as ul

ID = 'C04'
PROFILES = ['dev', 'release']
REPLAY_PROFILES = ['dev', 'release']
TIME_LIMIT = {'quick': 900, 'thorough': 3300}
BUDGET = 200
FIRST_BUDGET = 400

def jobs(tier, seed, report):
    report.bounds = {'magnitudes': 'unbounded rationals', 'powers': '-2..2 without 0 (symbolic)', 'exponent_of_pow': '-4..4 symbolic integer; non-integers and unit-carrying exponents must be refused',
                     'shapes': 'quick: 1x1 entries over a seeded sample of all unit pairs + the whole 14-unit basis squared, 2x1 sampled from the basis; thorough: 900 seeded 1x1 pairs, 300 seeded 2x1 and 120 seeded 2x2 shapes over the basis',
                     'profiles': 'dev and release MIR (release: 1x1 basis only in quick)'}
    report.outside = ['more than 2 entries per operand', 'integer powers of a quantity in an offset unit (°C^n; conversions of such units are C09)', 'prefixes other than {0,3} on the first entry']
    report.assumptions = ['BigRational exact (SMT Real; products of symbolic magnitudes are nonlinear real arithmetic)', 'declared unit scales are checked against the standards in C05']
    report.models_used = ['num', 'coll', 'core']
    report.required_witnesses = ['product-si-exact', 'quotient-si-exact', 'dims-add', 'divide-by-zero', 'pow-value', 'pow-zero-dimensionless', 'pow-zero-negative-error', 'reconstructed-derived-unit', 'offset-product-refused-or-interval']
    rnd = random.Random(seed)
    I = harness.interp_for('dev')
    voc = ul.vocabulary(I)
    B = [ul.resolve(I, n) for n in ul.BASIS]
    js = []
    pairs = [(a, b) for a in voc for b in voc]
    rnd.shuffle(pairs)
    pairs = pairs[:220 if tier == 'quick' else 900]
    pairs += [(a, b) for a in B for b in B]
    for i in range(0, len(pairs), 6): js.append({'name': f'1x1-{i}', 'kind': 'muldiv', 'profile': 'dev', 'shapes': [([a], [b]) for a, b in pairs[i:i + 6]]})
    pp = [(a, b) for a in B for b in B]; rnd.shuffle(pp)
    for i in range(0, 12 if tier == 'quick' else 60, 3): js.append({'name': f'prefix-1x1-{i}', 'kind': 'muldiv', 'profile': 'dev', 'symprefix': True, 'shapes': [([a], [b]) for a, b in pp[i:i + 3]]})
    bb = [(a, b) for a in B for b in B]
    rnd.shuffle(bb)
    for i in range(0, 36 if tier == 'quick' else len(bb), 6): js.append({'name': f'rel-1x1-{i}', 'kind': 'muldiv', 'profile': 'release', 'shapes': [([a], [b]) for a, b in bb[i:i + 6]]})
    sh21 = [([a, b], [c]) for a, b in itertools.combinations(B, 2) for c in B]
    rnd.shuffle(sh21)
    n21 = 24 if tier == 'quick' else min(len(sh21), 300)
    for i in range(0, n21, 2): js.append({'name': f'2x1-{i}', 'kind': 'muldiv', 'profile': 'dev', 'shapes': sh21[i:i + 2]})
    if tier != 'quick':
        sh22 = [([a, b], [c, d]) for a, b in itertools.combinations(B, 2) for c, d in itertools.combinations(B, 2)]
        rnd.shuffle(sh22)
        for i in range(0, 120, 2): js.append({'name': f'2x2-{i}', 'kind': 'muldiv', 'profile': 'dev', 'shapes': sh22[i:i + 2]})
    # zero-point scales in products and quotients, both operand orders, with themselves, with kelvin and with other units
    OFF = [ul.resolve(I, n) for n in ul.OFFSET_UNITS]
    others = [ul.resolve(I, n) for n in ('Meter', 'Kelvin', 'Second', 'energy::JOULE')] + (B if tier != 'quick' else [])
    osh = [([o], [u]) for o in OFF for u in others] + [([u], [o]) for o in OFF for u in others] + [([a], [b]) for a in OFF for b in OFF]
    osh += [([o, others[0]], [others[2]]) for o in OFF] + [([others[2]], [o, others[0]]) for o in OFF]
    for i in range(0, len(osh), 4): js.append({'name': f'offset-{i}', 'kind': 'muldiv', 'profile': 'dev', 'shapes': osh[i:i + 4]})
    for prof in PROFILES:
        us = voc if (tier != 'quick' or prof == 'dev') else B
        for i in range(0, len(us), 8): js.append({'name': f'{prof}-pow-{i}', 'kind': 'pow', 'profile': prof, 'units': us[i:i + 8]})
        js.append({'name': f'{prof}-pow-misc', 'kind': 'powmisc', 'profile': prof})
    return js

def decl(I): return lambda u: ul.declared_scale(I, u)[1]

def run_job(job, res, prefixes, budget, deadline):
    I = harness.interp_for(job['profile'], {'pow_bound': 40})
    if job['kind'] == 'muldiv':
        for a, b in job['shapes']:
            for op in ('mul', 'div'): muldiv(I, res, a, b, op, job['profile'], deadline, symprefix=job.get('symprefix', False))
    elif job['kind'] == 'pow':
        for u in job['units']: powjob(I, res, [u], job['profile'], deadline)
        powjob(I, res, [], job['profile'], deadline)
    else:
        powmisc(I, res, job['profile'], deadline)

def qtext(m, x, ent):
    e = ul.conc_entries(m, ent); s = ul.spell_compound(e)
    if s is None: return None
    return f'{rt.frac_str(rt.mval(m, x))} {s}' if s else rt.frac_str(rt.mval(m, x))

def muldiv(I, res, au, bu, op, prof, deadline, symprefix=False):
    # a scale with a zero point (°C, °F) inside a product: C09's clause applies -- refused, or the degree is an interval
    # (its size from the standard: 1 K, 5/9 K) and the zero point is never added
    offs = any(U.is_offset(u) for u in au + bu)
    sc = lambda u: U.scale_of(u) if U.is_offset(u) else ul.declared_scale(I, u)[1]
    FN = rt.find_fn(I, op, contains='eval::', nargs=3)
    def entry(I):
        x = z3.Real('x'); y = z3.Real('y')
        ae = ul.sym_entries(I, au, 'a', -2, 2); be = ul.sym_entries(I, bu, 'b', -2, 2)
        # a prefix on the first entry of each operand
        if symprefix:
            fa = z3.Int('fa'); fb = z3.Int('fb'); I.assume(z3.And(z3.Or(fa == 0, fa == 3, fa == -6), z3.Or(fb == 0, fb == -3)))
        else: fa, fb = 3, 0
        ae = [(ae[0][0], ae[0][1], fa)] + ae[1:]; be = [(be[0][0], be[0][1], fb)] + be[1:]
        I.path_state['in'] = (x, y, ae, be)
        return I.run_body(FN, [rt.span(0, 9), rt.numeric(x, rt.compound(I, ae)), rt.numeric(y, rt.compound(I, be))])
    def on_path(I, out, res):
        kind, r = out
        x, y, ae, be = I.path_state['in']
        def case(m):
            ca, cb = ul.conc_entries(m, ae), ul.conc_entries(m, be); xv, yv = rt.mval(m, x), rt.mval(m, y)
            return {'op': 'numeric_op', 'fn': op, 'a': ul.numeric_json(I, xv, ca), 'b': ul.numeric_json(I, yv, cb), 'an': ul.names_list(ca), 'bn': ul.names_list(cb),
                    'x': str(xv), 'y': str(yv), 'opname': op, 'text': f'({qtext(m, x, ae)}) {"*" if op == "mul" else "/"} ({qtext(m, y, be)})'}
        if kind == 'panic':
            rr, m = I.model_for(None)
            if m is not None: res['candidates'].append({'role': f'{op}-panics', 'case': case(m), 'detail': f'{prof}: {r}'})
            return
        if kind != 'ok': return
        if r.variant == 'Err':
            ek = r.items[0].items[1].variant
            if op == 'div' and ek == 'DivideByZero':
                if res.obligation(I, y != 0, 'DivideByZero only for a zero divisor', lambda m: res['candidates'].append({'role': 'spurious-divide-by-zero', 'case': case(m), 'detail': ek})) == 'unsat': res.witness('divide-by-zero')
                return
            res['obligations'] += 1
            if offs:
                res['discharged'] += 1; res.witness('offset-product-refused-or-interval'); return
            rr, m = I.model_for(None)
            res['candidates'].append({'role': f'{op}-refused', 'case': case(m), 'detail': ek}); return
        num = r.items[0]
        v = mnum.rz(mnum.rat_arg(I, num.items[0])); R = rt.read_compound(I, num.items[1])
        fa = ul.F_of(I, ae, sc); fb = ul.F_of(I, be, sc); fr = ul.F_of(I, R, sc)
        # zero divisor must not produce a value
        if op == 'div':
            res.obligation(I, y == 0, 'a zero divisor never yields a number', lambda m: res['candidates'].append({'role': 'divide-by-zero-yields-number', 'case': case(m), 'detail': ''}))
        # invariant: no zero-power entry
        nz = zand(*[p != 0 for _, p, _ in R]) if R else True
        res.obligation(I, znot(nz), 'no zero-power entry', lambda m: res['candidates'].append({'role': 'zero-power-entry', 'case': case(m), 'detail': str([(u, rt.mval(m, p)) for u, p, _ in R])}))
        # dimensions
        sgn = 1 if op == 'mul' else -1
        da = ul.dims_formula(ae); db = ul.dims_formula(be); dr = ul.dims_formula(R)
        want = {b: da.get(b, 0) + sgn * db.get(b, 0) for b in U.BASE}
        if res.obligation(I, znot(ul.dims_equal(dr, want)), 'dimensions add', lambda m: res['candidates'].append({'role': 'dimension', 'case': case(m), 'detail': f'result unit {[(u, rt.mval(m, p)) for u, p, _ in R]}'})) == 'unsat': res.witness('dims-add')
        # SI value
        lhs = v * mnum.rz(fr)
        rhs = x * mnum.rz(fa) * (y * mnum.rz(fb)) if op == 'mul' else x * mnum.rz(fa) / (y * mnum.rz(fb))
        def on_sat(m):
            res['candidates'].append({'role': 'si-value', 'case': case(m), 'detail': f'{prof}: result {rt.mval(m, v)} {[(u, rt.mval(m, p), rt.mval(m, f)) for u, p, f in R]}'})
        if res.obligation(I, lhs != rhs, 'SI value of the result', on_sat) == 'unsat':
            res.witness('product-si-exact' if op == 'mul' else 'quotient-si-exact')
            if offs: res.witness('offset-product-refused-or-interval')
            if any(u not in rt.BASE_UNITS for u, _, _ in R): res.witness('reconstructed-derived-unit')
        if len(res['samples']) < 3 and len(R) >= 1:
            res['samples'].append({'a': str([(u, str(p)) for u, p, _ in ae]), 'b': str([(u, str(p)) for u, p, _ in be]), 'op': op, 'result_unit': str([(u, str(p)) for u, p, _ in R]),
                                   'result_value': str(z3.simplify(v))[:120], 'obligations': ['v*F(R) == SI product', 'dims add', 'no zero power']})
    harness.explore(I, res, entry, on_path, None, 100000, deadline)

def powjob(I, res, units, prof, deadline):
    if any(U.is_offset(u) for u in units): return
    POW = rt.find_fn(I, 'pow', contains='eval::', nargs=3)
    def entry(I):
        x = z3.Real('x'); n = z3.Int('n'); I.assume(z3.And(n >= -4, n <= 4))
        ue = ul.sym_entries(I, units, 'u', -2, 2)
        if ue:
            f = z3.Int('f'); I.assume(z3.Or(f == 0, f == 3)); ue = [(ue[0][0], ue[0][1], f)]
        I.path_state['in'] = (x, n, ue)
        return I.run_body(POW, [rt.span(0, 9), rt.numeric(x, rt.compound(I, ue)), rt.numeric(z3.ToReal(n), rt.compound(I, []))])
    def on_path(I, out, res):
        kind, r = out
        x, n, ue = I.path_state['in']
        def case(m):
            ca = ul.conc_entries(m, ue); xv = rt.mval(m, x); nv_ = rt.mval(m, n)
            return {'op': 'numeric_op', 'fn': 'pow', 'a': ul.numeric_json(I, xv, ca), 'b': ul.numeric_json(I, nv_, []), 'an': ul.names_list(ca), 'x': str(xv), 'n': nv_,
                    'text': f'({qtext(m, x, ue)})^{nv_}'}
        if kind == 'panic':
            rr, m = I.model_for(None)
            if m is not None: res['candidates'].append({'role': 'pow-panics', 'case': case(m), 'detail': f'{prof}: {r}'})
            return
        if kind != 'ok': return
        nv = I.concretize(n, what='exponent')
        if r.variant == 'Err':
            ek = r.items[0].items[1].variant
            ok_err = (ek == 'DivideByZero')
            if ok_err and res.obligation(I, znot(zand(x == 0, nv < 0)), 'DivideByZero only for 0^negative', lambda m: res['candidates'].append({'role': 'pow-spurious-error', 'case': case(m), 'detail': ek})) == 'unsat':
                res.witness('pow-zero-negative-error')
            elif not ok_err:
                res['obligations'] += 1
                rr, m = I.model_for(None)
                res['candidates'].append({'role': 'pow-refused', 'case': case(m), 'detail': ek})
            return
        num = r.items[0]
        v = mnum.rz(mnum.rat_arg(I, num.items[0])); R = rt.read_compound(I, num.items[1])
        fu = ul.F_of(I, ue); fr = ul.F_of(I, R)
        if nv < 0:
            res.obligation(I, x == 0, 'zero to a negative power never yields a number', lambda m: res['candidates'].append({'role': 'zero-to-negative-power-yields-number', 'case': case(m), 'detail': f'{prof}: result {rt.mval(m, v)}'}))
            if I.check(x != 0) != z3.sat: return
            I.assume(x != 0)
        want = z3.RealVal(1)
        for _ in range(abs(nv)): want = want * x
        if nv < 0: want = 1 / want
        if res.obligation(I, v != want, 'value is x^n', lambda m: res['candidates'].append({'role': 'pow-value', 'case': case(m), 'detail': f'{prof}: got {rt.mval(m, v)}'})) == 'unsat': res.witness('pow-value')
        dr = ul.dims_formula(R); du = ul.dims_formula(ue)
        want_d = {b: du.get(b, 0) * nv for b in U.BASE}
        def dim_sat(m):
            res['candidates'].append({'role': 'pow-dimension', 'case': case(m), 'detail': f'{prof}: result unit {[(u, rt.mval(m, p)) for u, p, _ in R]} for exponent {nv}'})
        if res.obligation(I, znot(ul.dims_equal(dr, want_d)), 'dimension is n * dim', dim_sat) == 'unsat' and nv == 0: res.witness('pow-zero-dimensionless')
        res.obligation(I, znot(zand(*[p != 0 for _, p, _ in R]) if R else True), 'no zero-power entry', lambda m: res['candidates'].append({'role': 'zero-power-entry', 'case': case(m), 'detail': str(R)}))
        si_want = want * mnum.rz(Fraction(fu) ** nv if fu != 0 else 0)
        res.obligation(I, v * mnum.rz(fr) != si_want, 'SI value is (x*F(U))^n', lambda m: res['candidates'].append({'role': 'pow-si-value', 'case': case(m), 'detail': f'{prof}: result {rt.mval(m, v)} {[(u, rt.mval(m, p), rt.mval(m, f)) for u, p, f in R]}'}))
    harness.explore(I, res, entry, on_path, None, 100000, deadline)

def powmisc(I, res, prof, deadline):
    """non-integer exponent and exponent with a unit are refused"""
    POW = rt.find_fn(I, 'pow', contains='eval::', nargs=3)
    for kind in ('nonint', 'unit'):
        def entry(I):
            x = z3.Real('x'); K = z3.Int('K'); f = z3.Real('f')
            I.assume(z3.And(f > 0, f < 1) if kind == 'nonint' else f == 0)
            e = z3.ToReal(K) + f; mnum.register_decomp(I, e, K, f)
            eu = rt.compound(I, [('Second', 1, 0)] if kind == 'unit' else [])
            return I.run_body(POW, [rt.span(0, 9), rt.numeric(x, rt.compound(I, [('Meter', 1, 0)])), rt.numeric(e, eu)])
        def on_path(I, out, res):
            k, r = out
            if k != 'ok': return
            res['obligations'] += 1
            if r.variant == 'Err' and r.items[0].items[1].variant in ('IllegalPowerNonInteger', 'IllegalPowerUnit'): res['discharged'] += 1
            else: res['candidates'].append({'role': 'bad-exponent-accepted', 'case': {'op': 'numeric_op', 'fn': 'pow', 'a': ul.numeric_json(I, 2, [('Meter', 1, 0)]),
                                            'b': ul.numeric_json(I, Fraction(1, 2) if kind == 'nonint' else 2, [] if kind == 'nonint' else [('Second', 1, 0)])}, 'detail': repr(r)[:200]})
        harness.explore(I, res, entry, on_path, None, 1000, deadline)

# ---------------------------------------------------------------- replay
def confirm(c, outs):
    case = c['case']
    for prof, o in outs.items():
        if 'panic' in o: return True, f'{prof}: panic {o["panic"]}'
        rs = o.get('ok')
        if not isinstance(rs, list) or len(rs) != 1: return True, f'{prof}: unexpected {o}'
        r = rs[0]
        if c['role'] == 'bad-exponent-accepted':
            if 'ok' in r: return True, f'{prof}: accepted'
            continue
        x = Fraction(case['x'])
        if 'n' in case:
            n = case['n']; a = [tuple(e) for e in case['an']]
            if x == 0 and n < 0:
                if 'ok' in r: return True, f'{prof}: 0^{n} gave {r["ok"]["value"]} instead of an error'
                continue
            if 'err' in r: return True, f'{prof}: refused: {r["err"]}'
            want = x ** n
            got = rt.parse_frac(r['ok']['value']); R = unit_entries(r['ok']['unit'])
            if got * ul.decl_si_factor(R) != (x * ul.decl_si_factor(a)) ** n: return True, f'{prof}: SI value {got * ul.decl_si_factor(R)} instead of {(x * ul.decl_si_factor(a)) ** n} (result {got} {r["ok"]["unit_text"]})'
            wd = {b: k * n for b, k in U.dims_of_compound(a).items() if k * n}
            if U.dims_of_compound(R) != wd: return True, f'{prof}: result unit {r["ok"]["unit_text"]!r} has dimension {U.dims_of_compound(R)}, expected {wd}'
            continue
        y = Fraction(case['y']); a = [tuple(e) for e in case['an']]; b = [tuple(e) for e in case['bn']]
        div = case['opname'] == 'div'
        if div and y == 0:
            if 'ok' in r: return True, f'{prof}: division by zero gave {r["ok"]["value"]}'
            continue
        if 'err' in r:
            if any(U.is_offset(u) for u, _, _ in a + b): continue      # a product with a zero-point scale may be refused
            return True, f'{prof}: refused: {r["err"]}'
        got = rt.parse_frac(r['ok']['value']); R = unit_entries(r['ok']['unit'])
        want = x * ul.decl_si_factor(a) * (y * ul.decl_si_factor(b)) if not div else x * ul.decl_si_factor(a) / (y * ul.decl_si_factor(b))
        if any(p == 0 for _, p, _ in R): return True, f'{prof}: zero-power entry in {R}'
        if got * ul.decl_si_factor(R) != want: return True, f'{prof}: SI value {got * ul.decl_si_factor(R)} instead of {want} (result {got} {r["ok"]["unit_text"]})'
        da = U.dims_of_compound(a); db = U.dims_of_compound(b); s = -1 if div else 1
        wd = {k: da.get(k, 0) + s * db.get(k, 0) for k in set(da) | set(db)}; wd = {k: v for k, v in wd.items() if v}
        if U.dims_of_compound(R) != wd: return True, f'{prof}: dimension {U.dims_of_compound(R)} instead of {wd}'
    return False, 'real build agrees with the oracle'

_ID2NAME = None
def unit_entries(js):
    """replay unit json -> [(static key, power, prefix)] using the id table of the reference-independent MIR statics"""
    global _ID2NAME
    if _ID2NAME is None:
        I = harness.interp_for('dev'); _ID2NAME = rt.derived_names(I)
    out = []
    for u, p, f in js:
        if isinstance(u, dict): u = _ID2NAME.get(u['derived'], f'derived#{u["derived"]}')
        out.append((u, p, f))
    return out

def validate(tier, seed, report):
    from props import unitlib
    return unitlib.validate_kernels(seed, 80 if tier == 'quick' else 400, ops=('mul', 'div', 'pow'))

def known_match(k, c): return True

if __name__ == '__main__':
    sys.exit(harness.main(sys.modules[__name__]))
