"""C07  Decimal literals are read exactly.

(a) <Rational as FromStr>::from_str, executed from MIR over ALL strings of N symbolic ASCII bytes: whenever the string
    is in the literal grammar it must be accepted and its value must equal the independent literal semantics
    (spec/literal.py); the exponent's power of ten is the uninterpreted pow10 shared by model and oracle, so the
    exponent value is unbounded.
(b) the real lexer (Lexer::next from MIR) run on the same symbolic strings: a grammar string (optionally followed by
    '%') is lexed as exactly one NUMBER token spanning the literal (then the query evaluator hands exactly that span to
    the same from_str; that hand-over is the NUMBER / PERCENTAGE arm of eval, checked in (c)).
(c) NUMBER / PERCENTAGE arms of eval::eval on a one-token tree: value = from_str(span) resp. /100.
"""
import z3, json
from fractions import Fraction
import harness
from mirsym import *
from models import num as mnum
from models.strings import StrS
from models.core import deref
from spec import literal as lit

ID = 'C07'
PROFILES = ['dev']
REPLAY_PROFILES = ['dev', 'release']
BUDGET = 64
TIME_LIMIT = {'quick': 900, 'thorough': 3300}

def jobs(tier, seed, report):
    nmax = 6 if tier == 'quick' else 8
    lexn = 5
    report.bounds = {'from_str_string_length': f'<= {nmax} bytes, every byte symbolic over 0..127 (all ASCII), exhaustive over byte classes',
                     'lexer_string_length': f'<= {lexn} chars (literal alphabet + one arbitrary other ASCII char class), optional trailing %',
                     'exponent_value': 'unbounded (uninterpreted pow10 shared with the oracle); u32 overflow of the exponent accumulator is unreachable within the length bound'}
    report.bounds['long_literals'] = 'shapes sign? digits{0,1,9,17} (. digits{0,1,9,17})? (e sign? digits{1,3})? with every position symbolic inside its class; in a run of digits the first two may be any digit, the rest are 1..9 (quick: every third shape)'
    report.outside = [f'literals longer than {nmax} bytes that are not of a listed long shape (from_str) / {lexn} chars (lexer)', 'non-ASCII bytes inside a literal (rejected by the same `_` arm as any other byte)',
                      'num-bigint / num-rational themselves (modelled as Int / Real)']
    report.assumptions = ['BigInt/BigRational are exact (modelled as SMT Int/Real)', 'pow10(e) > 0 is the only fact used about 10^e with a symbolic exponent',
                          'library models: str::bytes, Peekable, Option/Result plumbing, u32::checked_*, chars/get/len_utf8 for the lexer']
    report.models_used = ['num', 'core', 'strings']
    report.required_witnesses = ['accepted-in-grammar', 'accepted-neg-exponent', 'accepted-fraction', 'rejected', 'lexer-number-token', 'lexer-percent']
    js = [{'name': f'from_str-N{n}', 'kind': 'from_str', 'N': n} for n in range(0, nmax + 1)]
    js += [{'name': f'lexer-N{n}', 'kind': 'lexer', 'N': n} for n in range(1, lexn + 1)]
    # long literals: every position restricted to one CLASS (digit / point / exponent marker / sign) but symbolic inside it,
    # so the digit loop is exercised far beyond the exhaustive length bound (leading zeros, many fraction digits, exponent)
    shapes = []
    for a in (0, 1, 9, 17):
        for b in (None, 0, 1, 9, 17):
            for ex in (None, 'd', 'sd', 'sddd'):
                if a == 0 and not b: continue
                run = lambda k: 'd' * min(k, 2) + 'n' * max(k - 2, 0)      # the reader tests every digit for '0': only a few may be zero, or paths double per digit
                sh = 's' * (a % 2) + run(a) + ('' if b is None else '.' + run(b)) + ('' if ex is None else 'e' + ex)
                shapes.append(sh)
    if tier == 'quick': shapes = shapes[::3]
    js += [{'name': f'long-{sh}', 'kind': 'from_str', 'N': len(sh), 'classes': sh} for sh in shapes]
    js.sort(key=lambda j: -j['N'] if 'classes' not in j else 0)
    return js

# ---------------------------------------------------------------- symbolic oracle
def spec_value(I, bs):
    """reference value of the byte string under the current path condition; None = not in the grammar.
    Forks (through I.branch) only where the implementation did not already separate the byte classes."""
    def is_(b, chars): return I.branch(z3.Or([b == ord(c) for c in chars]))
    def is_digit(b): return I.branch(z3.And(b >= 48, b <= 57))
    i = 0; n = len(bs)
    neg = False
    if i < n and is_(bs[i], '+-'):
        neg = I.branch(bs[i] == ord('-')); i += 1
    mant = z3.IntVal(0); fd = 0; nd = 0
    while i < n and is_digit(bs[i]):
        mant = mant * 10 + (bs[i] - 48); i += 1; nd += 1
    if i < n and is_(bs[i], '.'):
        if nd == 0:
            # '.' digits+
            i += 1
            while i < n and is_digit(bs[i]):
                mant = mant * 10 + (bs[i] - 48); fd += 1; i += 1
            if fd == 0: return None
        else:
            i += 1
            while i < n and is_digit(bs[i]):
                mant = mant * 10 + (bs[i] - 48); fd += 1; i += 1
    elif nd == 0:
        return None
    exp = None; eneg = False
    if i < n and is_(bs[i], 'eE'):
        i += 1
        if i < n and is_(bs[i], '+-'):
            eneg = I.branch(bs[i] == ord('-')); i += 1
        ed = 0; exp = z3.IntVal(0)
        while i < n and is_digit(bs[i]):
            exp = exp * 10 + (bs[i] - 48); i += 1; ed += 1
        if ed == 0: return None
    if i != n: return None
    val = z3.ToReal(mant) / z3.RealVal(10 ** fd)
    if exp is not None:
        p = mnum.rz(mnum.pow10_term(I, exp))
        val = val / p if eneg else val * p
    tags = {'neg_exp': exp is not None and eneg, 'fraction': fd > 0}
    return (-val if neg else val), tags

def sym_string(I, n, alphabet=None):
    bs = []
    for i in range(n):
        b = z3.Int(f'b{i}')
        if alphabet is None: I.assume(z3.And(b >= 0, b < 128))
        else: I.assume(z3.Or([b == ord(c) for c in alphabet[:-1]] + [b == alphabet[-1]] if isinstance(alphabet[-1], int) else [b == ord(c) for c in alphabet]))
        bs.append(b)
    return bs

def concrete(m, bs):
    return ''.join(chr(m.eval(b, model_completion=True).as_long()) for b in bs)

def run_job(job, res, prefixes, budget, deadline):
    I = harness.interp_for('dev')
    if job['kind'] == 'from_str': return job_from_str(I, job, res, prefixes, budget, deadline)
    return job_lexer(I, job, res, prefixes, budget, deadline)

def job_from_str(I, job, res, prefixes, budget, deadline):
    N = job['N']
    FROM_STR = [b for k, bl in I.bodies.items() if k.endswith('::from_str') and 'rational' in k for b in bl][0]
    def entry(I):
        bs = sym_string(I, N)
        for b, c in zip(bs, job.get('classes') or ''):
            I.assume({'d': z3.And(b >= 48, b <= 57), 'n': z3.And(b >= 49, b <= 57), '.': b == 46, 'e': z3.Or(b == 101, b == 69), 's': z3.Or(b == 43, b == 45)}[c])
        I.path_state['bs'] = bs
        s = StrS([(VInt(b, 'char'), 1) for b in bs])
        return I.run_body(FROM_STR, [VRef(Cell(s), [])])
    def on_path(I, out, res):
        kind, r = out
        bs = I.path_state['bs']
        if kind == 'panic':
            rr, m = I.model_for(None)
            if m is not None:
                res['candidates'].append({'role': 'from_str-panics', 'case': {'op': 'parse_rational', 'text': concrete(m, bs)}, 'detail': str(r)})
            return
        if kind != 'ok': return
        sv = spec_value(I, bs)
        if r.variant == 'Err':
            res.witness('rejected')
            if sv is not None:
                rr, m = I.model_for(None)
                res['obligations'] += 1
                res['candidates'].append({'role': 'grammar-literal-rejected', 'case': {'op': 'parse_rational', 'text': concrete(m, bs)}, 'detail': 'in grammar but Err'})
            return
        if sv is None:
            res.witness('accepted-outside-grammar'); return
        sv, tags = sv
        val = mnum.rz(mnum.rat_arg(I, r.items[0]))
        res.witness('accepted-in-grammar')
        if tags['neg_exp']: res.witness('accepted-neg-exponent')
        if tags['fraction']: res.witness('accepted-fraction')
        def on_sat(m):
            res['candidates'].append({'role': 'wrong-value', 'case': {'op': 'parse_rational', 'text': concrete(m, bs)},
                                      'detail': f'impl={m.eval(val)} spec={m.eval(sv)}'})
        try:
            import ratfun
            P, _, zero = ratfun.difference(val, sv); neg = (P != 0) if not zero else False
        except Exception:
            neg = val != sv
        res.obligation(I, neg, 'from_str value == literal value (expanded polynomial form)', on_sat)
        if len(res['samples']) < 3 and N >= 3:
            rr, m = I.model_for(None)
            if m is not None:
                res['samples'].append({'kind': 'from_str path', 'N': N, 'example_string': concrete(m, bs),
                                       'path_condition': [str(c)[:80] for c in I.pc[N:N + 6]], 'obligation': 'value_impl == value_spec  (unsat negation)'})
    harness.explore(I, res, entry, on_path, prefixes, budget, deadline)

# ---------------------------------------------------------------- (b) lexer agreement
LEX_ALPHA = '0123456789+-.eE% x'
def job_lexer(I, job, res, prefixes, budget, deadline):
    N = job['N']
    NEW = [b for k, bl in I.bodies.items() if 'lexer::' in k and k.endswith('::new') for b in bl][0]
    NEXT = [b for k, bl in I.bodies.items() if 'lexer::' in k and k.endswith('>::next') and 'Iterator' not in k for b in bl]
    NEXT = [b for b in NEXT if len(b.args) == 1 and 'Lexer' in b.args[0][1]][0]
    def entry(I):
        bs = []
        for i in range(N):
            b = z3.Int(f'b{i}')
            I.assume(z3.Or([b == ord(c) for c in LEX_ALPHA]))
            bs.append(b)
        I.path_state['bs'] = bs
        # only strings that are a grammar literal, optionally followed by '%', matter: decided by the oracle afterwards
        s = StrS([(VInt(b, 'char'), 1) for b in bs])
        lx = Cell(I.run_body(NEW, [VRef(Cell(s), [])]))
        toks = []
        for _ in range(N + 1):
            t = I.run_body(NEXT, [VRef(lx, [])])
            if t.variant == 'None': break
            tok = t.items[0]
            toks.append((I.concretize(tok.items[0].v), tok.items[1].variant))
        return toks
    def on_path(I, out, res):
        kind, toks = out
        bs = I.path_state['bs']
        if kind != 'ok': return
        # oracle: is bs (or bs minus a trailing '%') a grammar literal?
        pct = N >= 2 and I.branch(bs[-1] == ord('%'))
        body = bs[:-1] if pct else bs
        sv = spec_value(I, body)
        if sv is None: res.witness('lexer-not-a-literal'); return
        want = [(len(body), 'NUMBER')] + ([(1, 'PERCENTAGE')] if pct else [])
        res['obligations'] += 1
        if toks == want:
            res['discharged'] += 1
            res.witness('lexer-number-token')
            if pct: res.witness('lexer-percent')
            if len(res['samples']) < 2:
                rr, m = I.model_for(None)
                if m is not None: res['samples'].append({'kind': 'lexer path', 'example_string': concrete(m, bs), 'tokens': toks})
        else:
            rr, m = I.model_for(None)
            res['candidates'].append({'role': 'literal-not-one-number-token', 'case': {'op': 'lex', 'text': concrete(m, bs)}, 'detail': f'tokens={toks} want={want}'})
    harness.explore(I, res, entry, on_path, prefixes, budget, deadline)

# ---------------------------------------------------------------- replay side
def frac_of(s):
    n, d = s.split('/') if '/' in s else (s, '1')
    return Fraction(int(n), int(d))

def confirm(c, outs):
    """outs: {profile: replay output}.  True when the real build disagrees with the oracle."""
    case = c['case']
    for prof, o in outs.items():
        if case['op'] == 'parse_rational':
            want = lit.value(case['text'])
            if 'panic' in o: return True, f'{prof}: panic {o["panic"]}'
            if want is None or want == 'huge': continue
            if 'err' in o: return True, f'{prof}: grammar literal rejected'
            if frac_of(o['ok']) != want: return True, f'{prof}: parsed {o["ok"]} but the literal spells {want}'
        elif case['op'] == 'lex':
            if 'panic' in o: return True, f'{prof}: panic {o["panic"]}'
            t = case['text']; body = t[:-1] if t.endswith('%') and len(t) > 1 else t
            if lit.value(body) is None: continue
            want = [['NUMBER', len(body.encode())]] + ([['PERCENTAGE', 1]] if body != t else [])
            if o.get('ok') != want: return True, f'{prof}: tokens {o.get("ok")} instead of {want}'
    return False, 'real build agrees with the oracle'

def validate(tier, seed, report):
    """concrete literals through the MIR interpreter and through the native str::parse::<Rational>"""
    import random, replay_client, rt, sys
    from fractions import Fraction
    if hasattr(sys, 'set_int_max_str_digits'): sys.set_int_max_str_digits(0)
    from models.strings import StrS
    from models import num as mnum_
    rnd = random.Random(3000 + seed)
    I = harness.interp_for('dev')
    texts = [''.join(rnd.choice('0123456789.eE+-0011') for _ in range(rnd.randint(1, 9))) for _ in range(150 if tier == 'quick' else 1000)]
    import re as _re
    texts = [t for t in texts if not _re.search(r'[eE][+-]?\d{4,}', t)]      # 10^(10^8) is a long computation, not a translation question
    texts += ['1.1234e10', '-.5', '1.', '.', '1e', '0e0', '-0.0e-0', '007.50', '+3', '1e+2', '1.5e-3', '12.5E2']
    outs = replay_client.run_profile([{'op': 'parse_rational', 'text': t} for t in texts], 'dev')
    okc = 0
    for t, o in zip(texts, outs):
        I.reset([])
        try: r = I.call('<rational::Rational as FromStr>::from_str', [VRef(Cell(StrS.from_text(t)), [])])
        except PathEnd as e:
            if e.kind == 'panic' and 'panic' in o: okc += 1; continue
            raise RuntimeError(f'translator validation: {t!r}: interpreter {e.kind} {e.info}, native {o}')
        if r.variant == 'Err':
            if 'err' not in o: raise RuntimeError(f'translator validation: {t!r}: interpreter Err, native {o}')
        else:
            v = Fraction(mnum_.rat_arg(I, r.items[0]))
            if 'ok' not in o or rt.parse_frac(o['ok']) != v: raise RuntimeError(f'translator validation: {t!r}: interpreter {v}, native {o}')
        okc += 1
    return okc

def known_match(k, c):
    return True

if __name__ == '__main__':
    sys.exit(harness.main(sys.modules[__name__]))
