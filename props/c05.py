"""C05  Every unit word denotes the standard definition of a unit and prefix.

Executed from MIR: generated::unit::parse with BOTH logos-generated DFAs (every `gotoN` function and jump table of the
`Combined` and `Units` lexers; only the logos runtime is a model), UnitParser::next, and for expressions
<Compound as FromStr>::from_str = Parser::parse_unit + grammar::unit + eval::unit + Compound::update.

(words)     a word of L characters, every position a SOLVER VARIABLE over [A-Za-z0-9'] (one position may instead be '°'; these are exactly
            the characters the query lexer admits into a WORD token): the solver walks the DFA; every accepted word (all words of an accepting path are
            enumerated by all-SAT) must be read as one of the valid readings of that spelling -- a sequence of
            [SI prefix] + documented unit name pieces (spec/unitnames.py, from tools/gen/data.toml).
(prefixed)  P symbolic letters followed by a concrete documented name, for every name: whatever the solver finds
            accepted in front of a name must be a valid reading (a prefix, or other units), never something else.
(names)     every documented name that can be typed as a query word, alone: accepted, with exactly that unit (and, if the name is a
            symbol fixed by the SI brochure / yard-pound agreement / US customary measure, that standard unit).
(statics)   every `static ..: Derived`: declared conversion and dimension closure equal the standard scale and
            dimension (spec/units.py).
(expr)      unit expressions  w1 o1 w2 o2 w3  with optional ^n (n = sign and a symbolic digit), separators symbolic over
            '*', '/', ' ': the resulting Compound equals the reference (juxtaposition, * and blanks multiply, / flips the
            sign of everything after it, ^n applies to the unit it follows and accumulates with earlier occurrences).
"""
import z3, sys, random, itertools
from fractions import Fraction
import harness, rt, qrun, mirfront
from mirsym import *
from models import num as mnum
from models.strings import StrS, sref
from spec import units as U, unitnames as UN
from props import unitlib as ul

ID = 'C05'
PROFILES = ['dev']
REPLAY_PROFILES = ['dev', 'release']
TIME_LIMIT = {'quick': 900, 'thorough': 3300}
BUDGET = 150
FIRST_BUDGET = 50
SPECIAL = ['°']      # the only non-ASCII character the query lexer admits into a WORD token (μ, Ω and '-' can never reach the unit parser)
EXPR_WORDS = ['m', 's', 'kg', 'N', 'km', 'ms', 'min', 'ft', 'J', 'W', 'A', 'K', 'mol', 'l', 'Pa', 'V']

_voc = None
def voc():
    global _voc
    if _voc is None: _voc = UN.Vocabulary(mirfront.REPO)
    return _voc

def jobs(tier, seed, report):
    rnd = random.Random(seed)
    L = 3 if tier == 'quick' else 4
    V = voc()
    names = sorted(n for n in V.names if all(ch.isascii() and (ch.isalnum() or ch == "'") or ch == '°' for ch in n))     # names that can be typed as a query word
    report.bounds = {'words': f'all words of <= {L} letters [A-Za-z] (each letter a solver variable), plus one special character among {SPECIAL} at every position for words of <= {L} characters',
                     'prefixed_names': f'1 symbolic letter in front of every documented name ({len(names)} names); 2 symbolic letters in front of a seeded sample of {10 if tier == "quick" else 80} names' + ('; 3 letters for 8 names' if tier != 'quick' else ''),
                     'names': 'every documented name alone and with μ in front', 'statics': 'every Derived static in the MIR',
                     'expressions': f'up to 3 unit words from {EXPR_WORDS} with symbolic separators and exponents -9..9 ({40 if tier == "quick" else 400} seeded templates)'}
    report.outside = ['arbitrary words longer than the bound that are not <= 3 letters + a documented name', 'expressions with more than 3 words', 'that data.toml documents the vocabulary the project intends (it is the project\'s own generator input)']
    report.assumptions = ['logos runtime model (Lexer::{read, read_at, bump_unchecked, set, end, error, remainder}); the generated DFA itself is executed', 'jump-table enum layouts read from rustc\'s macro expansion', 'spec/units.py (standards), tools/gen/data.toml (documented spellings)']
    report.models_used = ['logosrt', 'strings', 'core', 'coll', 'tree']
    report.required_witnesses = ['word-accepted-valid-reading', 'word-rejected', 'prefixed-name-valid', 'name-alone-exact', 'static-standard', 'expr-matches-reference', 'expr-cancellation', 'expr-division-flips', 'multi-unit-word']
    js = []
    for n in range(1, L + 1):
        js.append({'name': f'word-{n}', 'kind': 'word', 'shape': [None] * n})
        for i in range(n):
            for sp in SPECIAL:
                sh = [None] * n; sh[i] = sp
                js.append({'name': f'word-{n}-sp{i}-{ord(sp):x}', 'kind': 'word', 'shape': sh})
    for i in range(0, len(names), 8):
        js.append({'name': f'pref1-{i}', 'kind': 'prefname', 'p': 1, 'names': names[i:i + 8]})
    sample = list(names); rnd.shuffle(sample)
    for i, nm in enumerate(sample[:10 if tier == 'quick' else 80]):
        js.append({'name': f'pref2-{nm}', 'kind': 'prefname', 'p': 2, 'names': [nm]})
    if tier != 'quick':
        for nm in sample[:8]: js.append({'name': f'pref3-{nm}', 'kind': 'prefname', 'p': 3, 'names': [nm]})
    for i in range(0, len(names), 40):
        js.append({'name': f'names-{i}', 'kind': 'names', 'names': names[i:i + 40]})
    js.append({'name': 'statics', 'kind': 'statics'})
    # expressions
    tpls = []
    for k in (1, 2, 3):
        for ws in itertools.product(EXPR_WORDS, repeat=k):
            tpls.append(ws)
    rnd.shuffle(tpls)
    fixed = [('m', 'm'), ('s', 's'), ('m', 's', 'm'), ('kg', 'm', 's'), ('J', 'kg', 'K'), ('m', 's', 's'), ('km', 'km'), ('km', 'm'), ('N', 'm', 'N')]
    chosen = fixed + tpls[:(40 if tier == 'quick' else 250)]
    for i, ws in enumerate(chosen):
        exps = tuple(rnd.choice([None, None, '+', '-']) for _ in ws) if i >= len(fixed) else tuple(rnd.choice(['+', '-', None]) for _ in ws)
        js.append({'name': f'expr-{i}-{"_".join(ws)}', 'kind': 'expr', 'words': list(ws), 'exps': list(exps)})
        if i < len(fixed):
            js.append({'name': f'expr-{i}b-{"_".join(ws)}', 'kind': 'expr', 'words': list(ws), 'exps': [None] * (len(ws) - 1) + ['-']})
    return js

def run_job(job, res, prefixes, budget, deadline):
    I = harness.interp_for('dev')
    qrun.install(I)
    {'word': word_job, 'prefname': word_job, 'names': names_job, 'statics': statics_job, 'expr': expr_job}[job['kind']](I, job, res, prefixes, budget, deadline)

def parse_word(I, s):
    """UnitParser loop over one word, as eval::unit does: ('ok'|'reject', [(prefix, unit key)])"""
    up = Cell(VStruct('unit_parser::UnitParser', [sref(s)]))
    out = []
    for _ in range(s.blen() + 2):
        r = I.call("UnitParser::<'_>::next", [VRef(up, [])])
        if r.variant == 'Err': return 'reject', out
        o = r.items[0]
        if o.variant == 'None': return 'ok', out
        pre, unit = o.items[0].items
        nm = rt.unit_name(I, unit)
        out.append((nm if nm in U.BASE else U.key(nm), I.concretize(pre.v, what='prefix')))
    raise PathEnd('bound', 'unit parser does not finish')

def letters(I, n, tag):
    """word characters of the query lexer (consume_word): letters, digits and the apostrophe"""
    out = []
    for i in range(n):
        c = z3.Int(f'{tag}{i}'); I.assume(z3.Or(z3.And(c >= 65, c <= 90), z3.And(c >= 97, c <= 122), z3.And(c >= 48, c <= 57), c == 39))
        out.append((VInt(c, 'char'), 1))
    return out

def word_job(I, job, res, prefixes, budget, deadline):
    V = voc()
    shapes = [job['shape']] if job['kind'] == 'word' else [[None] * job['p'] + list(nm) for nm in job['names']]
    for shape in shapes:
        def entry(I):
            chars = []; k = 0
            for ch in shape:
                if ch is None: chars += letters(I, 1, f'c{k}_'); k += 1
                else: chars.append((VInt(ord(ch), 'char'), len(ch.encode())))
            s = StrS(chars); I.path_state['s'] = s
            return parse_word(I, s)
        def on_path(I, out, res):
            kind, r = out
            s = I.path_state.get('s')
            if s is None: return
            if kind == 'panic':
                res['obligations'] += 1
                rr, m = I.model_for(None)
                if m is not None: res['candidates'].append({'role': 'unit-parser-panics', 'case': {'op': 'unit_seq', 'word': model_word(m, s)}, 'detail': str(r)})
                return
            if kind != 'ok': return
            status, seq = r
            if status == 'reject':
                res.witness('word-rejected'); res['obligations'] += 1; res['discharged'] += 1
                return
            # enumerate the words of this accepting path
            for c, w in s.chars:
                if not is_conc(c.v): I.concretize(c.v, limit=60, what='letter')
            rr, m = I.model_for(None)
            word = model_word(m, s)
            res['obligations'] += 1
            valid = V.readings(word)
            if tuple(seq) in valid:
                res['discharged'] += 1
                res.witness('word-accepted-valid-reading' if job['kind'] == 'word' else 'prefixed-name-valid')
                if len(seq) > 1: res.witness('multi-unit-word')
                if len(res['samples']) < 6 and len(word) >= 2 and (seq[0][1] != 0 or len(seq) > 1): res['samples'].append({'word': word, 'read_as': seq, 'valid_readings': len(valid)})
            else:
                res['candidates'].append({'role': 'invalid-reading', 'case': {'op': 'unit_seq', 'word': word}, 'detail': f'read as {seq}; valid readings: {sorted(valid)[:4]}'})
        harness.explore(I, res, entry, on_path, prefixes if len(shapes) == 1 else None, budget if len(shapes) == 1 else 100000, deadline)

def model_word(m, s):
    return ''.join(chr(rt.mval(m, c.v)) if not is_conc(c.v) else chr(c.v) for c, _ in s.chars)

def names_job(I, job, res, prefixes, budget, deadline):
    V = voc()
    for nm in job['names']:
        for pre in ('',):
            word = pre + nm
            def entry(I):
                return parse_word(I, StrS.from_text(word))
            def on_path(I, out, res):
                kind, r = out
                res['obligations'] += 1
                case = {'op': 'unit_seq', 'word': word}
                if kind != 'ok':
                    if kind == 'panic': res['candidates'].append({'role': 'unit-parser-panics', 'case': case, 'detail': str(r)})
                    return
                status, seq = r
                targets = V.names[nm]
                if pre == '':
                    want = [(k, b) for k, b in targets]
                    if status != 'ok' or len(seq) != 1 or seq[0] not in want:
                        res['candidates'].append({'role': 'documented-name-not-itself', 'case': case, 'detail': f'read as {status} {seq}; documented as {want}'}); return
                    std = UN.STANDARD.get(nm)
                    if std is not None and seq[0][0] != std:
                        res['candidates'].append({'role': 'standard-symbol-nonstandard-unit', 'case': case, 'detail': f'{nm} read as {seq[0][0]}; the standard symbol denotes {std}'}); return
                    res['discharged'] += 1; res.witness('name-alone-exact')
                else:
                    if status == 'ok' and tuple(seq) not in V.readings(word):
                        res['candidates'].append({'role': 'invalid-reading', 'case': case, 'detail': f'read as {seq}'}); return
                    res['discharged'] += 1
                    if status == 'ok': res.witness('micro-prefix')
            harness.explore(I, res, entry, on_path, None, 100, deadline)

def statics_job(I, job, res, prefixes, budget, deadline):
    for name in rt.derived_statics(I):
        key = U.key(name)
        res['obligations'] += 1; res['paths'] += 1
        if key not in U.UNITS:
            res['candidates'].append({'role': 'unit-without-standard-definition', 'case': {'op': 'static', 'unit': key}, 'detail': 'no entry in spec/units.py'}); continue
        kind, scale, off = ul.declared_scale(I, name)
        want = U.scale_of(name)
        case = {'op': 'static', 'unit': key, 'id': int(I.get_static(name).val.items[0].v)}
        if kind == 'methods':
            res['discharged'] += 1; continue          # Fahrenheit: closures, decided in C09
        if kind == 'offset':
            if off != U.OFFSETS.get(key): res['candidates'].append({'role': 'unit-scale-differs-from-standard', 'case': case, 'detail': f'offset {off}, standard {U.OFFSETS.get(key)}'}); continue
        elif scale != want:
            res['candidates'].append({'role': 'unit-scale-differs-from-standard', 'case': case, 'detail': f'declared scale {scale}, standard {want} ({U.UNITS[key][2]})'}); continue
        res['discharged'] += 1; res.witness('static-standard')
    res['samples'].append({'statics_checked': len(rt.derived_statics(I))})

def expr_job(I, job, res, prefixes, budget, deadline):
    V = voc()
    words = job['words']; exps = job['exps']
    reads = [single_readings(V, w) for w in words]
    def entry(I):
        chars = []; seps = []; digs = []
        def put(t):
            for ch in t: chars.append((VInt(ord(ch), 'char'), len(ch.encode())))
        for i, w in enumerate(words):
            if i > 0:
                c = z3.Int(f'sep{i}'); I.assume(z3.Or(c == 42, c == 47, c == 32)); seps.append(c)
                chars.append((VInt(c, 'char'), 1))
            put(w)
            if exps[i] is not None:
                put('^'); put('-' if exps[i] == '-' else '')
                d = z3.Int(f'dig{i}'); I.assume(z3.And(d >= 48, d <= 57)); digs.append((i, d))
                chars.append((VInt(d, 'char'), 1))
        s = StrS(chars); I.path_state['st'] = (s, seps, digs)
        return I.call('<compound::Compound as FromStr>::from_str', [sref(s)])
    def on_path(I, out, res):
        kind, r = out
        st = I.path_state.get('st')
        if st is None: return
        s, seps, digs = st
        def case(m=None):
            if m is None: rr, m = I.model_for(None)
            return {'op': 'compound', 'text': model_word(m, s), 'words': words, 'exps': exps}
        res['obligations'] += 1
        if kind == 'panic':
            res['candidates'].append({'role': 'unit-expression-panics', 'case': case(), 'detail': str(r)}); return
        if kind != 'ok': return
        sv = [I.concretize(c, what='separator') for c in seps]
        ref, why = reference_compound(I, words, exps, sv, dict(digs), reads)
        if r.variant == 'Err':
            ek = r.items[0].items[1].variant
            if ref is None and why in ('prefix-mismatch',) and ek == 'PrefixMismatch': res['discharged'] += 1; return
            res['candidates'].append({'role': 'unit-expression-refused', 'case': case(), 'detail': f'{ek}; reference {ref if ref is not None else why}'}); return
        if ref is None:
            res['candidates'].append({'role': 'unit-expression-accepted-despite-' + why, 'case': case(), 'detail': str(rt.read_compound(I, r.items[0]))}); return
        got = rt.read_compound(I, r.items[0])
        gd = {(u if u in U.BASE else U.key(u)): (p, f) for u, p, f in got}
        res['discharged'] += 1
        # every unit of either side: equal power (zero when absent) and, when present, equal prefix
        conds = []
        for u in set(gd) | set(ref):
            gp, gf = gd.get(u, (0, None)); rp, rf = ref.get(u, (0, None))
            conds.append(gp == rp)
            if u in gd and u in ref: conds.append(z3.Or(rp == 0, gf == rf) if not is_conc(rp) else (gf == rf if rp != 0 else True))
            if u in gd and not is_conc(gp): pass
        zero_left = zor(*[(p == 0) for u, (p, f) in gd.items()]) if gd else False
        st_ = res.obligation(I, znot(zand(*conds)), 'compound equals the reference expression semantics',
                             lambda m: res['candidates'].append({'role': 'unit-expression-semantics', 'case': case(m), 'detail': f'got {[(u, rt.mval(m, p), f) for u, (p, f) in gd.items()]}, reference {[(u, rt.mval(m, p), f) for u, (p, f) in ref.items()]}'}))
        res.obligation(I, zero_left, 'no zero-power entry is kept', lambda m: res['candidates'].append({'role': 'zero-power-entry', 'case': case(m), 'detail': str([(u, rt.mval(m, p)) for u, (p, f) in gd.items()])}))
        if st_ == 'unsat':
            res.witness('expr-matches-reference')
            if 47 in sv: res.witness('expr-division-flips')
            if len(set(words)) < len(words): res.witness('expr-cancellation')
            if len(res['samples']) < 8 and len(words) >= 2: res['samples'].append({'text': model_word(I.model_for(None)[1], s), 'separators': [chr(c) for c in sv], 'result': {u: str(p) for u, (p, f) in gd.items()}})
    harness.explore(I, res, entry, on_path, prefixes, budget, deadline)

def single_readings(V, w):
    """a documented name means itself (names rule); otherwise the one-piece readings"""
    if w in V.names: return [((k, b),) for k, b in V.names[w]]
    return [x for x in sorted(V.readings(w), key=len) if len(x) == 1]

def reference_compound(I, words, exps, seps, digs, reads):
    """{unit: (power expr, prefix)} or (None, reason)"""
    acc = {}; sign = 1
    for i, w in enumerate(words):
        if i > 0 and seps[i - 1] == 47: sign = -sign
        if len(reads[i]) != 1: return None, 'ambiguous-word'
        (u, pre), = reads[i][0]
        n = 1
        if exps[i] is not None:
            d = digs[i] - 48
            n = -d if exps[i] == '-' else d
        if u in acc:
            if acc[u][1] != pre: return None, 'prefix-mismatch'
            newp = acc[u][0] + sign * n
        else: newp = sign * n
        # a unit whose power cancels is forgotten (its prefix too)
        if I is not None and not is_conc(newp):
            if I.branch(newp == 0): newp = 0          # fork only on "cancelled or not", the power itself stays symbolic
        if is_conc(newp) and newp == 0: acc.pop(u, None)
        else: acc[u] = (newp, pre)
    return acc, None

# ---------------------------------------------------------------- replay
_names = None
def id2key():
    global _names
    if _names is None:
        I = harness.interp_for('dev'); _names = {k: U.key(v) for k, v in rt.derived_names(I).items()}
    return _names

def confirm(c, outs):
    case = c['case']; V = voc()
    if case['op'] == 'static':
        # the static's declared scale is read from the evaluated MIR initialiser; confirm through a real conversion to the base expansion
        import replay_client
        key = case['unit']
        dims = U.dims_of(key)
        tgt = [[b, p, 0] for b, p in dims.items()]
        cs = {'op': 'factor', 'target': tgt, 'source': [[{'derived': case['id']}, 1, 0]], 'value': '1/1'}
        o = replay_client.run_cases([cs], profiles=REPLAY_PROFILES)[0]
        for prof, r in o.items():
            rr = r.get('ok') or {}
            if rr.get('refused') or not rr.get('commensurable'): return True, f'{prof}: 1 {key} does not convert to its standard base dimensions {dims}: {r}'
            got = rt.parse_frac(rr['value'])
            want = U.scale_of(key) + (U.OFFSETS.get(key, 0) if key in U.OFFSETS else 0)
            if got != want: return True, f'{prof}: 1 {key} = {got} in base SI, the standard value is {want} ({U.UNITS[key][2]})'
        return False, 'real build agrees with the standard'
    for prof, o in outs.items():
        if 'panic' in o: return True, f'{prof}: panic {o["panic"]}'
        if case['op'] == 'unit_seq':
            word = case['word']
            seq = o.get('ok')
            role = c.get('role')
            if seq is None:
                if role in ('documented-name-not-itself', 'standard-symbol-nonstandard-unit'): return True, f'{prof}: {word!r} is rejected'
                continue
            got = []
            for e in seq:
                u = e['unit'][0][0]
                got.append((u if isinstance(u, str) else id2key().get(u['derived'], str(u)), e['prefix']))
            if role == 'standard-symbol-nonstandard-unit':
                if len(got) != 1 or got[0][0] != UN.STANDARD[word]: return True, f'{prof}: {word!r} is read as {got}; the standard symbol denotes {UN.STANDARD[word]}'
                continue
            if role == 'documented-name-not-itself':
                if len(got) != 1 or got[0] not in V.names[word]: return True, f'{prof}: {word!r} is read as {got}; documented as {V.names[word]}'
                continue
            if tuple(got) not in V.readings(word): return True, f'{prof}: {word!r} is read as {got}, not a valid prefix+name reading ({sorted(V.readings(word))[:3]})'
        elif case['op'] == 'compound':
            text = case['text']
            words = case['words']; exps = case['exps']
            # recompute the reference from the concrete text
            seps = []; digs = {}; pos = 0
            for i, w in enumerate(words):
                if i > 0: seps.append(ord(text[pos])); pos += 1
                pos += len(w)
                if exps[i] is not None:
                    pos += 1 + (1 if exps[i] == '-' else 0); digs[i] = ord(text[pos]); pos += 1
            reads = [single_readings(V, w) for w in words]
            ref, why = reference_compound(None, words, exps, seps, digs, reads)
            if 'err' in o:
                if ref is None: continue
                return True, f'{prof}: {text!r} refused ({o["err"]}); reference {ref}'
            ents = o.get('ok') or []
            got = {}
            for u, p, f in ents:
                got[u if isinstance(u, str) else id2key().get(u['derived'], str(u))] = (p, f)
            if ref is None: return True, f'{prof}: {text!r} accepted as {got} despite {why}'
            want = {u: (p, f) for u, (p, f) in ref.items() if p != 0}
            if got != want: return True, f'{prof}: {text!r} parsed as {got}, reference semantics give {want}'
    return False, 'real build agrees with the reference'

def validate(tier, seed, report):
    """concrete words (prefix spelling + documented name, and random letters) through the interpreted unit parser and
    through the native one (verif::unit_word in a loop)"""
    import replay_client
    rnd = random.Random(5000 + seed)
    I = harness.interp_for('dev'); V = voc()
    names = sorted(n for n in V.names if n.isascii()); pres = sorted(p for p in V.prefixes if p.isascii()) + ['']
    words = [rnd.choice(pres) + rnd.choice(names) for _ in range(200 if tier == 'quick' else 2000)]
    words += [''.join(rnd.choice('abcdefghiklmnopstuvyzACFGHJKLMNPSTVW') for _ in range(rnd.randint(1, 5))) for _ in range(100)]
    outs = replay_client.run_profile([{'op': 'unit_seq', 'word': w} for w in words], 'dev')
    ids = id2key(); okc = 0
    for w, o in zip(words, outs):
        I.reset([])
        try: status, seq = parse_word(I, StrS.from_text(w))
        except PathEnd as ex:
            if ex.kind == 'panic' and 'panic' in o: okc += 1; continue
            raise RuntimeError(f'translator validation: {w!r}: interpreter {ex.kind} {ex.info}, native {o}')
        nat = o.get('ok')
        if status == 'reject':
            if nat is not None: raise RuntimeError(f'translator validation: {w!r}: interpreter rejects, native {nat}')
        else:
            got = []
            for e in nat or []:
                u = e['unit'][0][0]; got.append((u if isinstance(u, str) else ids.get(u['derived'], str(u)), e['prefix']))
            if nat is None or got != seq: raise RuntimeError(f'translator validation: {w!r}: interpreter {seq}, native {nat}')
        okc += 1
    return okc

def backtracking_situation(V, word):
    """does the longest-match lexer have to back up inside this word?  At some start s the longest run that is still a
    prefix of some spelling is strictly longer than the longest complete spelling at s."""
    spell = set(V.names) | set(V.prefixes)
    for s in range(len(word)):
        acc = max([len(t) for t in spell if word.startswith(t, s)], default=0)
        part = 0
        for k in range(1, len(word) - s + 1):
            if any(t.startswith(word[s:s + k]) for t in spell): part = k
            else: break
        if acc >= 1 and part > acc: return True
    return False

def known_match(k, c):
    case = c['case']
    if 'unit' in k: return case.get('unit') == k['unit']
    if 'word' in k: return case.get('word') == k['word']
    if k.get('predicate') == 'logos-backtracking': return case.get('op') == 'unit_seq' and backtracking_situation(voc(), case.get('word', ''))
    return False

if __name__ == '__main__':
    sys.exit(harness.main(sys.modules[__name__]))
