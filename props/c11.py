"""C11  Any input yields values or located errors, never a crash.

(soup)    the whole pipeline (Lexer, Parser/grammar over the syntree model, Query iterator, eval::eval with every arm,
          eval::unit + the logos unit DFA, builtins, Compound::factor/mul, the Display of the resulting unit) is executed
          from the dev AND the release MIR on strings built from K lexeme slots; which lexeme stands in a slot is a
          solver variable (all-SAT over a vocabulary of numbers, operators, brackets, blanks, unit words, `to`, a
          function name, an unknown word, braces, a stray point and a multi-byte character); every number's VALUE is an
          unbounded symbolic rational, every unit exponent a symbolic integer in [-99, 99], every database lookup an
          arbitrary outcome (error / nothing / a constant with symbolic value and a unit).  On every path: no panic
          (MIR assert terminators: overflow, bounds, division; explicit panics; model-level panics such as Ratio division
          by zero, slicing off a char boundary, unwrap on None), parse_root returns a tree, every Err carries a span with
          start <= end <= len on character boundaries, the unit of every Ok displays.
(kernels) eval::{add, sub, mul, div, pow} and the unit Display on quantities whose unit POWERS are solver variables
          small or next to the extremes of the i32 range (i32::MAX, i32::MIN, 2^16, -2^30) and prefix 0 or 3: no reachable panic in either profile.
Counterexamples are replayed on the native dev and release builds (queries; operator kernels through the
cfg(anything_verif) entry points).
"""
import z3, sys, random, itertools
from fractions import Fraction
import harness, rt, qrun
from mirsym import *
from models import num as mnum
from models import fmt as mfmt
from models.core import some, none, ok, err, deref
from models.strings import StrS, sref
from models import coll
from props import unitlib as ul

ID = 'C11'
PROFILES = ['dev', 'release']
REPLAY_PROFILES = ['dev', 'release']
TIME_LIMIT = {'quick': 900, 'thorough': 3000}
BUDGET = 150
FIRST_BUDGET = 40
REPLAY_TIMEOUT = 15
MAX_REPLAY_PER_ROLE = 8

BIG = '99999999999'
VOCAB = ['7', ' ', '+', '-', '*', '/', '^', '(', ')', ',', '%', 'to', 'm', 'km', 's', 'round', 'zzz', '{', '}', '.', 'é', '-3', '°C', BIG]
SMALL = ['7', ' ', '*', '/', '^', '(', ')', 'm', 's', 'to', '-3']
KUNITS = ['Meter', 'Second', 'units::NEWTON', 'length::FOOT', 'KiloGram']

def jobs(tier, seed, report):
    rnd = random.Random(seed)
    report.bounds = {'soup': f'every string of <= 3 lexemes from a vocabulary of {len(VOCAB)} (dev); <= 4 lexemes from {len(SMALL)} (dev) ; <= 2 from the small vocabulary and <= 3 from its first 7 lexemes (release)' + ('; <= 4 from the full vocabulary, 5 from the small one' if tier != 'quick' else ''),
                     'values': 'every literal a symbolic rational with integer part in [-3,3] and arbitrary fraction (plus one concrete 11-digit literal); paths are followed for 40 solver decisions', 'unit_exponents': 'symbolic integers in [-99, 99]', 'lookups': 'error / not found / constant with symbolic value and unit m or dimensionless',
                     'kernels': 'add sub mul div pow on 1- and 2-entry compounds over ' + str(KUNITS) + ', powers small (|p| <= 3; Display: <= 12) or within 2 of i32::MAX, i32::MIN, 2^16, -2^30 (solver variables), prefix 0 or 3; unit Display with the same powers'}
    report.outside = ['longer strings', 'termination for astronomically large exponents (2^2e999): the power loop is linear in the exponent VALUE', 'codespan diagnostic rendering', 'tantivy']
    report.assumptions = ['Db::lookup is an arbitrary function of the phrase', 'syntree builder/tree model', 'logos runtime model', 'fmt::Formatter model']
    report.models_used = ['num', 'core', 'coll', 'strings', 'tree', 'logosrt', 'fmt']
    report.required_witnesses = ['soup-ok-value', 'soup-located-error', 'soup-syntax-error-node', 'soup-lookup', 'kernel-no-panic', 'unit-displays']
    js = []
    def soup(prof, k, vocab, tag):
        # split by the first lexeme so that the jobs are of similar size
        for first in range(len(vocab)):
            js.append({'name': f'{prof}-soup-{tag}{k}-{first}', 'kind': 'soup', 'profile': prof, 'k': k, 'vocab': vocab, 'first': first})
    for k in (1, 2, 3): soup('dev', k, VOCAB, 'v')
    soup('dev', 4, SMALL, 's')
    soup('release', 2, SMALL, 's'); soup('release', 3, SMALL[:7], 't')
    if tier != 'quick':
        soup('dev', 4, VOCAB, 'v'); soup('dev', 5, SMALL, 's'); soup('release', 4, SMALL, 's')
    for prof in PROFILES:
        for op in ('add', 'sub', 'mul', 'div', 'pow'):
            for a in KUNITS[:2 if tier == 'quick' else 5]:
                for b in KUNITS[:2 if tier == 'quick' else 5]:
                    js.append({'name': f'{prof}-kernel-{op}-{a}-{b}', 'kind': 'kernel', 'profile': prof, 'op': op, 'a': [a], 'b': [b] if op != 'pow' else []})
            if tier != 'quick' or op in ('add', 'pow'): js.append({'name': f'{prof}-kernel-{op}-2x1', 'kind': 'kernel', 'profile': prof, 'op': op, 'a': ['Meter', 'Second'], 'b': ['units::NEWTON'] if op != 'pow' else []})
        for b in ('temperature::CELSIUS', 'temperature::FAHRENHEIT'):
            for op in ('div', 'mul'): js.append({'name': f'{prof}-kernel-{op}-Meter-{b}', 'kind': 'kernel', 'profile': prof, 'op': op, 'a': ['Meter'], 'b': [b], 'small': 1})
        for u in KUNITS[:3]: js.append({'name': f'{prof}-display-{u}', 'kind': 'display', 'profile': prof, 'units': [u], 'small': 12})
    return js

def run_job(job, res, prefixes, budget, deadline):
    I = harness.interp_for(job['profile'], {'pow_bound': 40, 'max_decisions': 40, 'pow_abs_bound': 200, 'max_steps': 400000 if job['kind'] == 'soup' else 40000})
    qrun.install(I)
    {'soup': soup_job, 'kernel': kernel_job, 'display': display_job}[job['kind']](I, job, res, prefixes, budget, deadline)

def lookup_stub(I, phrase):
    """arbitrary outcome of the fact lookup"""
    c = I.fresh_int('lookup')
    I.assume(z3.And(c >= 0, c <= 3))
    k = I.concretize(c, what='lookup outcome')
    I.path_state.setdefault('lookups', []).append(k)
    if k == 0: return err(VEnum('db::LookupError', 'QueryParserError', [VObj('opaque')]))
    if k == 1: return ok(none())
    kf = I.fresh_int('factK'); ff = I.fresh_real('factF'); I.assume(z3.And(kf >= -3, kf <= 3, ff >= 0, ff < 1))
    v = z3.ToReal(kf) + ff; mnum.register_decomp(I, v, kf, ff)
    unit = rt.compound(I, [('Meter', 1, 0)] if k == 2 else [])
    const = VStruct('db::Constant', [none(), coll.vec([]), StrS.from_text('a fact'), rt.rational(v), unit])
    return ok(some(VEnum('db::Match', 'Constant', [const])))

def soup_job(I, job, res, prefixes, budget, deadline):
    vocab = job['vocab']; K = job['k']
    def entry(I):
        chars = []; leaves = {}; ints = {}; lex = []
        for i in range(K):
            if i == 0: j = job['first']
            else:
                v = z3.Int(f'slot{i}'); I.assume(z3.And(v >= 0, v < len(vocab)))
                j = I.concretize(v, limit=len(vocab) + 1, what='lexeme')
            w = vocab[j]; lex.append(w)
            lo = len(chars)
            for ch in w: chars.append((VInt(ord(ch), 'char'), len(ch.encode())))
            if w == BIG: pass          # read by the real literal reader / integer parser: exercises to_i32 failures and BadNumber
            elif w[0].isdigit() or (w[0] == '-' and len(w) > 1):
                # any rational with a small integer part: BigRational arithmetic does not depend on magnitude, and loops
                # whose trip count is a literal's value (powers) stay short
                Kv = z3.Int(f'K{i}'); Fv = z3.Real(f'F{i}'); I.assume(z3.And(Kv >= -3, Kv <= 3, Fv >= 0, Fv < 1))
                L = z3.ToReal(Kv) + Fv; mnum.register_decomp(I, L, Kv, Fv)
                leaves[(lo, len(chars))] = L
                e = z3.Int(f'E{i}'); I.assume(z3.And(e >= -99, e <= 99)); ints[(lo, len(chars))] = e
        s = StrS(chars)
        I.path_state.update({'s': s, 'lex': lex, 'leaves': leaves, 'ints': ints, 'lookup': lookup_stub})
        # numbers glued together by the lexer (`7` `7` -> one literal `77`) are read by the real reader: fine, spans differ
        r = qrun.run_query(I, s)
        shown = []
        for x in r.results:
            if x.variant == 'Ok':
                f = mfmt.new_formatter()
                I.call('<compound::Compound as std::fmt::Display>::fmt', [VRef(Cell(x.items[0].items[1]), []), VRef(Cell(f), [])])
                shown.append(f)
        I.path_state['shown'] = shown
        return r
    def on_path(I, out, res):
        kind, r = out
        s = I.path_state.get('s')
        if s is None: return
        lex = I.path_state['lex']
        def cand(role, detail):
            rr, m = I.model_for(None)
            if m is None: return
            res['candidates'].append({'role': role, 'case': {'op': 'query', 'text': render(m, lex, I.path_state['leaves'], I.path_state['ints']), 'lexemes': lex, 'lookups': I.path_state.get('lookups', [])}, 'detail': f'{job["profile"]}: {detail}'})
        res['obligations'] += 1
        if kind == 'panic':
            if I.path_state.get('lookups'): cand('panic-after-lookup', str(r))
            else: cand('panic', str(r))
            return
        if kind == 'bound': return
        if kind != 'ok': return
        if r.parse.variant != 'Ok': cand('parse-root-failed', 'parse_root returned Err'); return
        total = s.blen()
        for x in r.results:
            if x.variant == 'Err':
                a, b = qrun.err_span(x)
                if not (is_conc(a) and is_conc(b)): cand('symbolic-span', 'error span depends on a value'); return
                if not (0 <= a <= b <= total) or s.at_byte(a) is None or s.at_byte(b) is None:
                    cand('error-span-outside-input', f'{qrun.err_kind(x)} at {a}..{b} of {total} bytes'); return
                res.witness('soup-located-error')
                if qrun.err_kind(x) == 'SyntaxError': res.witness('soup-syntax-error-node')
            else: res.witness('soup-ok-value')
        if I.path_state.get('lookups'): res.witness('soup-lookup')
        if I.path_state.get('shown'): res.witness('unit-displays')
        res['discharged'] += 1
        if len(res['samples']) < 6 and len(lex) >= 3 and len(set(lex)) >= 3 and r.results:
            res['samples'].append({'lexemes': lex, 'results': [x.variant if x.variant == 'Ok' else qrun.err_kind(x) + str(qrun.err_span(x)) for x in r.results]})
    harness.explore(I, res, entry, on_path, prefixes, budget, deadline)

def render(m, lex, leaves, ints):
    """text of the path under model m: number lexemes spell the model's value (rational cut) -- when the same lexeme
    is read as a unit exponent instead, the integer cut's value is what matters, so prefer it if it is not the default"""
    out = []; pos = 0
    spans = sorted(leaves)
    for w in lex:
        lo, hi = pos, pos + len(w); pos = hi
        if (lo, hi) in leaves:
            v = rt.mval(m, leaves[(lo, hi)]); e = rt.mval(m, ints[(lo, hi)])
            txt = rt.frac_str(v)
            if v == 0 and e != 0: txt = str(e)
            if txt.startswith('('): txt = str(e) if e != 0 else '7'
            out.append(txt)
        else: out.append(w)
    return ''.join(out)

# ---------------------------------------------------------------- kernels with arbitrary i32 powers
def sym_compound(I, units, tag, small=3):
    """powers: a solver variable that is either small (|p| <= small) or within 2 of an i32 extreme or of +-2^16; loops
    that run |power| times are cut by the step budget and counted as bound hits"""
    ents = []
    for i, u in enumerate(units):
        p = z3.Int(f'{tag}p{i}'); f = z3.Int(f'{tag}f{i}'); r = z3.Int(f'{tag}r{i}')
        I.assume(z3.And(r >= 0, r <= 4, z3.Or(f == 0, f == 3), p != 0))
        k = I.concretize(r, what='power regime')
        if k == 0: I.assume(z3.And(p >= -small, p <= small))
        elif k == 1: I.assume(z3.And(p >= 2 ** 31 - 3, p <= 2 ** 31 - 1))
        elif k == 2: I.assume(z3.And(p >= -2 ** 31, p <= -2 ** 31 + 2))
        elif k == 3: I.assume(z3.And(p >= 2 ** 16 - 1, p <= 2 ** 16 + 1))
        else: I.assume(z3.And(p >= -2 ** 30 - 1, p <= -2 ** 30 + 1))
        ents.append((ul.resolve(I, u), p, f))
    return ents

def kernel_job(I, job, res, prefixes, budget, deadline):
    FN = rt.find_fn(I, job['op'], contains='eval::', nargs=3)
    def entry(I):
        x = z3.Real('x'); y = z3.Real('y')
        ae = sym_compound(I, job['a'], 'a', small=job.get('small', 3)); be = sym_compound(I, job['b'], 'b', small=job.get('small', 3))
        if job['op'] == 'pow':
            n = z3.Int('n'); I.assume(z3.And(n >= -2 ** 31, n <= 2 ** 31 - 1)); yv = z3.ToReal(n)
            mnum.register_decomp(I, yv, n, 0)
        else: yv = y
        I.path_state['in'] = (x, yv, ae, be)
        return I.run_body(FN, [rt.span(0, 1), rt.numeric(x, rt.compound(I, ae)), rt.numeric(yv, rt.compound(I, be))])
    def on_path(I, out, res):
        kind, r = out
        io = I.path_state.get('in')
        if io is None: return
        x, y, ae, be = io
        res['obligations'] += 1
        if kind == 'panic':
            rr, m = I.model_for(None)
            if m is None: return
            ca, cb = ul.conc_entries(m, ae), ul.conc_entries(m, be)
            msg = str(r).lower()
            role = 'kernel-overflow' if 'overflow' in msg else ('kernel-division-by-zero' if 'division by zero' in msg or 'denominator' in msg else 'kernel-panics')
            res['candidates'].append({'role': role, 'case': {'op': 'numeric_op', 'fn': job['op'], 'a': ul.numeric_json(I, rt.mval(m, x), ca), 'b': ul.numeric_json(I, rt.mval(m, y), cb),
                                                                     'powers': [p for _, p, _ in ca + cb]}, 'detail': f'{job["profile"]}: {r}'})
            return
        if kind in ('ok', 'bound'): res['discharged'] += 1; res.witness('kernel-no-panic')
    harness.explore(I, res, entry, on_path, prefixes, budget, deadline)

def display_job(I, job, res, prefixes, budget, deadline):
    def entry(I):
        ents = sym_compound(I, job['units'], 'd', small=job.get('small', 12))
        c = rt.compound(I, ents)
        I.path_state['in'] = ents
        f = mfmt.new_formatter()
        return I.call('<compound::Compound as std::fmt::Display>::fmt', [VRef(Cell(c), []), VRef(Cell(f), [])])
    def on_path(I, out, res):
        kind, r = out
        ents = I.path_state.get('in')
        if ents is None: return
        res['obligations'] += 1
        if kind == 'panic':
            rr, m = I.model_for(None)
            if m is None: return
            ce = ul.conc_entries(m, ents)
            res['candidates'].append({'role': 'unit-display-overflow' if 'overflow' in str(r).lower() else 'unit-display-panics', 'case': {'op': 'unit_display', 'unit': ul.entries_json(I, ce), 'powers': [p for _, p, _ in ce]}, 'detail': f'{job["profile"]}: {r}'})
            return
        if kind in ('ok', 'bound'): res['discharged'] += 1; res.witness('unit-displays')
    harness.explore(I, res, entry, on_path, prefixes, budget, deadline)

# ---------------------------------------------------------------- replay
def confirm(c, outs):
    case = c['case']
    for prof, o in outs.items():
        if 'panic' in o: return True, f'{prof}: panic: {o["panic"][:200]}'
        if 'hang' in o: return True, f'{prof}: {o["hang"]} (the computation runs for a time proportional to a unit power / exponent value)'
        if case['op'] == 'query':
            if 'err' in o and str(o['err']).startswith('parse:'): return True, f'{prof}: {o["err"]}'
            text = case['text']
            for r in o.get('ok') or []:
                if 'err' in r:
                    if not (0 <= r['start'] <= r['end'] <= len(text.encode())) or not r.get('on_boundaries', True):
                        return True, f'{prof}: error range {r["start"]}..{r["end"]} outside {text!r} or off a character boundary'
    return False, 'real build neither panics nor misplaces an error'

def validate(tier, seed, report):
    from props import exprlib
    return exprlib.validate_pipeline(seed, 60 if tier == 'quick' else 300)

def known_match(k, c):
    case = c['case']
    if k.get('predicate') == 'huge-unit-power':
        return any(abs(p) >= 2 ** 15 for p in case.get('powers', []))
    return False

if __name__ == '__main__':
    sys.exit(harness.main(sys.modules[__name__]))
