"""C02  Addition, subtraction and casts are allowed exactly between commensurable units.

eval::add, eval::sub and Compound::factor (the cast arm's test) executed from MIR on two quantities whose compounds
consist of k1 resp. k2 entries; the units of the entries are concrete per job (all pairs of the vocabulary found in the
MIR), the powers are solver variables in [-3,3]\\{0}.  Obligation on every path:
        operation succeeds  <=>  sum_i p_i * dim_ref(u_i) agree on both sides          (dim_ref: spec/units.py)
as a formula over the symbolic powers, so cancellations to zero (J/N vs m, V*A vs W, C/s vs A ...) are found by the
solver.  (A) per unit: Unit::powers(u, p) adds exactly p * dim_ref(u).  (C) a unit-less operand adopts the other
operand's unit in both orders.
"""
import z3, sys, re, random, itertools
from fractions import Fraction
import harness, rt
from mirsym import *
from models import num as mnum
from spec import units as U
from props import unitlib as ul

ID = 'C02'
PROFILES = ['dev']
REPLAY_PROFILES = ['dev', 'release']
BUDGET = 200
FIRST_BUDGET = 400
TIME_LIMIT = {'quick': 900, 'thorough': 3000}

def jobs(tier, seed, report):
    report.bounds = {'powers': '[-3,3] without 0, symbolic', 'shapes': 'quick: 1 vs 1 over all unit pairs, 2 vs 1 and 2 vs 2 (sampled) over the 14-unit basis; thorough: 2 vs 1 over all units x basis, 2 vs 2 over the whole basis',
                     'prefixes': '0 (prefixes do not enter the commensurability decision; C03 covers them)'}
    report.outside = ['compounds with more than 2 entries per side', 'offset units (C09)', 'the OP_CAST arm of eval::eval itself is exercised in C06; here its decision function Compound::factor']
    report.assumptions = ['BTreeMap modelled as association list ordered by the crate\'s own Ord for Unit (run from MIR)', 'dim_ref from spec/units.py (SI brochure)']
    report.models_used = ['coll', 'core', 'num']
    report.required_witnesses = ['unit-powers-ok', 'commensurable-accepted', 'incommensurable-refused', 'cancelling-dims', 'unitless-adopts']
    rnd = random.Random(seed)
    js = [{'name': 'unit-powers', 'kind': 'powers'}, {'name': 'unitless', 'kind': 'unitless'}]
    I = harness.interp_for('dev')
    voc = ul.vocabulary(I)
    prs = [(a, b) for a in voc for b in voc if a <= b]
    rnd.shuffle(prs)
    for i in range(0, len(prs), 80): js.append({'name': f'pairs-1v1-{i}', 'kind': 'pairs11', 'pairs': prs[i:i + 80]})
    B = ul.BASIS
    pairs = list(itertools.combinations(range(len(B)), 2))
    shapes21 = [(a, b, c) for (a, b) in pairs for c in range(len(B))]
    shapes22 = [(a, b, c, d) for (a, b) in pairs for (c, d) in pairs if (a, b) <= (c, d)]
    if tier == 'quick':
        rnd.shuffle(shapes21); rnd.shuffle(shapes22)
        shapes21 = shapes21[:500]; shapes22 = shapes22[:250]
    for i in range(0, len(shapes21), 25): js.append({'name': f'2v1-{i}', 'kind': 'shape', 'shapes': shapes21[i:i + 25]})
    for i in range(0, len(shapes22), 10): js.append({'name': f'2v2-{i}', 'kind': 'shape', 'shapes': shapes22[i:i + 10]})
    # the classical cancelling spellings, always
    js.append({'name': 'named-cancellations', 'kind': 'named'})
    if tier != 'quick':
        js.append({'name': 'all-2v1', 'kind': 'all21'})
    return js

NAMED = [  # (lhs units, rhs units)
    (['energy::JOULE', 'units::NEWTON'], ['Meter']), (['units::VOLT', 'Ampere'], ['units::WATT']), (['units::COULOMB', 'Second'], ['Ampere']),
    (['units::WATT', 'Second'], ['energy::JOULE']), (['units::PASCAL', 'Meter'], ['units::NEWTON']), (['units::NEWTON', 'KiloGram'], ['units::ACCELERATION']),
    (['units::VOLT', 'units::OHM'], ['Ampere']), (['units::WEBER', 'Second'], ['units::VOLT']), (['units::HENRY', 'units::OHM'], ['Second']),
    (['units::FARAD', 'units::OHM'], ['Second']), (['units::GRAY', 'units::SIEVERT'], []), (['units::BECQUEREL', 'Second'], []),
    (['length::FOOT', 'length::INCH'], []), (['energy::JOULE', 'units::WATT'], ['units::time::HOUR']),
]

def run_job(job, res, prefixes, budget, deadline):
    I = harness.interp_for('dev')
    k = job['kind']
    if k == 'powers': return job_powers(I, job, res)
    if k == 'unitless': return job_unitless(I, job, res, prefixes, budget, deadline)
    if k == 'pairs11':
        for (a, b) in job['pairs']: shape_job(I, [a], [b], res, None, 10000, deadline)
        return
    if k == 'shape':
        B = [ul.resolve(I, n) for n in ul.BASIS]
        for sh in job['shapes']:
            if len(sh) == 3: shape_job(I, [B[sh[0]], B[sh[1]]], [B[sh[2]]], res, None, 10000, deadline)
            else: shape_job(I, [B[sh[0]], B[sh[1]]], [B[sh[2]], B[sh[3]]], res, None, 10000, deadline)
        return
    if k == 'named':
        for lhs, rhs in NAMED:
            shape_job(I, [ul.resolve(I, n) for n in lhs], [ul.resolve(I, n) for n in rhs], res, None, 10000, deadline)
        return
    if k == 'all21':
        voc = ul.vocabulary(I); B = [ul.resolve(I, n) for n in ul.BASIS]
        for a in voc:
            for b in B:
                if a == b: continue
                for c in B:
                    shape_job(I, [a, b], [c], res, None, 10000, deadline)
        return

def job_powers(I, job, res):
    """(A) Unit::powers(u, p) == p * dim_ref(u) for every unit, p symbolic over i32 range [-100,100]"""
    POWERS = rt.find_fn(I, 'powers', contains='unit::Unit', nargs=3)
    for name in ul.vocabulary(I, offsets=True):
        def entry(I):
            p = z3.Int('p'); I.assume(z3.And(p >= -100, p <= 100))
            pw = rt.new_powers(I)
            r = I.run_body(POWERS, [rt.unit_val(I, name), VRef(Cell(pw), []), VInt(p, 'i32')])
            return p, rt.read_powers(I, pw), r
        def on_path(I, out, res):
            kind, r = out
            if kind != 'ok':
                if kind == 'panic': res['inconclusive'].append(f'panic in Unit::powers({name}): {r}')
                return
            p, got, flag = r
            want = U.dims_of(name)
            gotd = {}
            for b, e in got: gotd[b] = gotd.get(b, 0) + e
            conds = [gotd.get(b, 0) == want.get(b, 0) * p for b in U.BASE] + [b in U.BASE for b in gotd]
            def on_sat(m):
                pv = rt.mval(m, p)
                res['candidates'].append({'role': 'unit-dimension', 'case': {'op': 'unit_powers', 'unit': name, 'power': pv},
                                          'expect': {b: k * pv for b, k in want.items()}, 'detail': f'{name}^{pv}: code {[(b, rt.mval(m, e)) for b, e in got]} reference {want}'})
            if res.obligation(I, znot(zand(*conds)), f'dims of {name}', on_sat) == 'unsat': res.witness('unit-powers-ok')
            if len(res['samples']) < 2: res['samples'].append({'unit': name, 'powers(p)': [(b, str(e)) for b, e in got], 'reference': want})
        harness.explore(I, res, entry, on_path, None, 1000, None)

def job_unitless(I, job, res, prefixes, budget, deadline):
    ADD = rt.find_fn(I, 'add', contains='eval::', nargs=3); SUB = rt.find_fn(I, 'sub', contains='eval::', nargs=3)
    for fn, name in ((ADD, '+'), (SUB, '-')):
        for order in (0, 1):
            def entry(I):
                x = z3.Real('x'); y = z3.Real('y'); p = z3.Int('p'); I.assume(z3.And(p != 0, p >= -3, p <= 3))
                unit = rt.compound(I, [('Meter', p, 3), (ul.resolve(I, 'units::NEWTON'), 1, 0)])
                a = rt.numeric(x, rt.compound(I, [])); b = rt.numeric(y, unit)
                if order: a, b = b, a
                return (x, y, p), I.run_body(fn, [rt.span(0, 5), a, b])
            def on_path(I, out, res):
                kind, r = out
                if kind != 'ok': return
                (x, y, p), r = r
                res['obligations'] += 1
                good = r.variant == 'Ok'
                if good:
                    got = rt.read_compound(I, r.items[0].items[1])
                    gd = {g[0].split('::')[-1]: g for g in got}
                    good = len(got) == 2 and set(gd) == {'Meter', 'NEWTON'} and I.check(znot(zand(gd['Meter'][1] == p, gd['Meter'][2] == 3, gd['NEWTON'][1] == 1, gd['NEWTON'][2] == 0))) == z3.unsat
                    val = mnum.rz(mnum.rat_arg(I, r.items[0].items[0]))
                    want = (x + y) if name == '+' else ((y - x) if order else (x - y))
                    good = good and I.check(val != want) == z3.unsat
                if good: res['discharged'] += 1; res.witness('unitless-adopts')
                else:
                    text = ('2 km^2*N {} 1' if order else '1 {} 2 km^2*N').format(name)
                    res['candidates'].append({'role': 'unitless-operand-does-not-adopt-unit', 'case': {'op': 'query', 'text': text},
                                              'expect': {'unit': [['Meter', 2, 3], ['NEWTON', 1, 0]]}, 'detail': f'order={order} result={r!r}'[:300]})
            harness.explore(I, res, entry, on_path, None, 100, None)

def shape_job(I, lhs_units, rhs_units, res, prefixes, budget, deadline):
    ADD = rt.find_fn(I, 'add', contains='eval::', nargs=3); SUB = rt.find_fn(I, 'sub', contains='eval::', nargs=3)
    FACTOR = rt.find_fn(I, 'factor', contains='compound', nargs=3)
    if not lhs_units or not rhs_units: return
    if len(set(lhs_units)) != len(lhs_units) or len(set(rhs_units)) != len(rhs_units): return
    for which in ('add', 'sub', 'factor'):
        def entry(I):
            le = ul.sym_entries(I, lhs_units, 'l'); re_ = ul.sym_entries(I, rhs_units, 'r')
            x = z3.Real('x'); y = z3.Real('y')
            a = rt.numeric(x, rt.compound(I, le)); b = rt.numeric(y, rt.compound(I, re_))
            I.path_state['in'] = (le, re_, x, y)
            if which == 'factor':
                cell = Cell(rt.rational(y))
                r = I.run_body(FACTOR, [VRef(Cell(a.items[1]), []), VRef(Cell(b.items[1]), []), VRef(cell, [])])
                return ('factor', r)
            return (which, I.run_body(ADD if which == 'add' else SUB, [rt.span(0, 9), a, b]))
        def on_path(I, out, res):
            kind, r = out
            le, re_, x, y = I.path_state['in']
            if kind == 'panic':
                rr, m = I.model_for(None)
                if m is not None:
                    res['candidates'].append({'role': 'panic', 'case': case_for(m, le, re_, which), 'detail': str(r)});
                return
            if kind != 'ok': return
            w, r = r
            if w == 'factor':
                if r.variant == 'Err': accepted = None
                else: accepted = r.items[0].v
            else:
                if r.variant == 'Ok': accepted = True
                else:
                    ek = r.items[0].items[1].variant
                    accepted = False if ek == 'IllegalOperation' else None
            want = ul.dims_equal(ul.dims_formula(le), ul.dims_formula(re_))
            if accepted is None:
                # ConversionNotPossible for non-offset units: never legitimate
                rr, m = I.model_for(None)
                res['obligations'] += 1
                res['candidates'].append({'role': 'conversion-refused-for-proportional-units', 'case': case_for(m, le, re_, which), 'detail': repr(r)[:200]})
                return
            neg = znot(want) if accepted else want
            def on_sat(m):
                res['candidates'].append({'role': 'commensurable-refused' if not accepted else 'incommensurable-accepted', 'case': case_for(m, le, re_, which),
                                          'expect': {'accepted': not accepted}, 'detail': f'{ul.conc_entries(m, le)} {which} {ul.conc_entries(m, re_)} accepted={accepted}'})
            v = res.obligation(I, neg, 'accepted <=> same base dimensions', on_sat)
            if v == 'unsat':
                res.witness('commensurable-accepted' if accepted else 'incommensurable-refused')
                if accepted and (len(lhs_units) > 1 or len(rhs_units) > 1): res.witness('cancelling-dims')
            if len(res['samples']) < 3 and accepted and len(lhs_units) > 1:
                rr, m = I.model_for(None)
                if m is not None: res['samples'].append({'lhs': str(ul.conc_entries(m, le)), 'rhs': str(ul.conc_entries(m, re_)), 'op': which, 'accepted': accepted,
                                                         'obligation': 'accepted <=> dims equal, as a formula over the symbolic powers'})
        harness.explore(I, res, entry, on_path, prefixes, budget, deadline)

def case_for(m, le, re_, which):
    I = harness.interp_for('dev')
    l = ul.conc_entries(m, le); r = ul.conc_entries(m, re_)
    lt = ul.spell_compound(l); rt_ = ul.spell_compound(r)
    if which == 'factor': c = ul.factor_case(I, l, r, 1)
    else: c = {'op': 'numeric_op', 'fn': which, 'a': ul.numeric_json(I, 1, l), 'b': ul.numeric_json(I, 1, r)}
    c.update({'lhs': ul.names_list(l), 'rhs': ul.names_list(r), 'text': f'1 {lt} {"to" if which == "factor" else which} 1 {rt_}'})
    return c

# ---------------------------------------------------------------- replay side
def confirm(c, outs):
    case = c['case']
    for prof, o in outs.items():
        if 'panic' in o: return True, f'{prof}: panic {o["panic"]}'
        if case['op'] == 'unit_powers':
            if 'err' in o: continue
            got = {k: v for k, v in o['ok']}
            want = {k: v for k, v in c['expect'].items() if v}
            if {k: v for k, v in got.items() if v} != want: return True, f'{prof}: Unit::powers gives {got}, reference {want}'
            continue
        l = [tuple(e) for e in case.get('lhs', [])]; rr = [tuple(e) for e in case.get('rhs', [])]
        if case['op'] == 'factor':
            same = U.dims_of_compound(l) == U.dims_of_compound(rr)
            res_ = o.get('ok') or {}
            if res_.get('refused'): return True, f'{prof}: conversion between proportional units refused'
            if same != res_.get('commensurable'): return True, f'{prof}: commensurable={same} but factor says {res_.get("commensurable")}'
            continue
        rs = o.get('ok')
        if not isinstance(rs, list) or len(rs) != 1: return True, f'{prof}: unexpected {o}'
        r = rs[0]
        if c['role'] == 'unitless-operand-does-not-adopt-unit':
            if 'err' in r: return True, f'{prof}: {r["err"]}'
            u = r['ok']['unit']
            if len(u) != 2: return True, f'{prof}: result unit {r["ok"]["unit_text"]!r} instead of the quantity\'s unit'
            continue
        same = U.dims_of_compound(l) == U.dims_of_compound(rr)
        if same and 'err' in r: return True, f'{prof}: commensurable but refused: {r["err"]}'
        if not same and 'ok' in r: return True, f'{prof}: incommensurable but accepted: {r["ok"]["value"]} {r["ok"]["unit_text"]}'
    return False, 'real build agrees with the oracle'

def validate(tier, seed, report):
    from props import unitlib
    return unitlib.validate_kernels(seed, 80 if tier == 'quick' else 400, ops=('add', 'sub'))

def known_match(k, c):
    return True

if __name__ == '__main__':
    sys.exit(harness.main(sys.modules[__name__]))
