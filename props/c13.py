"""C13  Quantity arithmetic obeys the field laws, including looked-up facts.

eval::{add, sub, mul, div} (Compound::factor, Compound::mul with reconstruct / bases_match / inner_match, base_units,
Powers) are executed from MIR on triples of quantities a = (x, U1), b = (y, U2), c = (z, U3): the magnitudes are
unbounded symbolic rationals, the units are concrete per job -- drawn from the 14-unit basis, from prefixed and powered
variants, and from the DISTINCT UNITS OF THE SHIPPED DATABASE (decoded from db/*.bin.gz by the replay helper at run time,
so a fact enters as its unit with an arbitrary value).  Every law is executed in both orders / groupings and z3 proves,
after normalising each result to (SI value, base dimensions) with the units' declared scales:
    a+b = b+a      a*b = b*a      (a+b)+c = a+(b+c)      (a*b)*c = a*(b*c)      a*(b+c) = a*b + a*c
    a-a = 0 (same dimension)      a/a = 1 and dimensionless (a != 0)
and that either both sides are refused or neither.  Counterexamples are replayed through the cfg(anything_verif) operator
entry points on the native dev and release builds.
"""
import z3, sys, random, itertools
from fractions import Fraction
import harness, rt, ratfun
from mirsym import *
from models import num as mnum
from spec import units as U
from props import unitlib as ul

ID = 'C13'
PROFILES = ['dev']
REPLAY_PROFILES = ['dev', 'release']
TIME_LIMIT = {'quick': 900, 'thorough': 3000}
BUDGET = 200
FIRST_BUDGET = 400

_dbunits = None
def db_units(I):
    """[entries] of the distinct non-empty, non-offset units of the shipped constants"""
    global _dbunits
    if _dbunits is None:
        import replay_client, mirfront
        o = replay_client.run_profile([{'op': 'db_units', 'dir': mirfront.REPO + '/db'}], 'dev')[0]
        names = rt.derived_names(I)
        out = []
        for e in o.get('ok') or []:
            ents = []
            for u, p, f in e['unit']:
                ents.append((u if isinstance(u, str) else names.get(u['derived']), p, f))
            if ents and all(n is not None for n, _, _ in ents) and not any(U.is_offset(n) for n, _, _ in ents): out.append(ents)
        _dbunits = (out, o.get('constants', 0))
    return _dbunits

def pool(I, tier, rnd):
    B = [ul.resolve(I, n) for n in ul.BASIS]
    ps = [[(u, 1, 0)] for u in B]
    ps += [[(B[0], 1, 3)], [(B[0], 2, 0)], [(B[0], 1, 0), (B[1], -1, 0)], [(B[0], 1, 3), (B[1], -1, 0)], [(B[2], 1, 0), (B[0], -3, -2)], [(B[1], -1, 0)], [(B[7], 1, 3), (ul.resolve(I, 'units::time::HOUR'), 1, 0)]]
    ps.append([])
    facts, nconst = db_units(I)
    return ps, facts, nconst

def partial_families(I):
    """Directed triples for *partial reconstruction*: a converted derived unit D (btu, hour) at a power the result only has
    room for in part -- D^2 * kg/D, D*D/D, ... -- where Compound::mul sheds the conversion factor with mod_power."""
    kg = ul.resolve(I, 'KiloGram'); out = []
    for n in ('energy::BTU', 'units::time::HOUR'):
        D = ul.resolve(I, n)
        S = [[(D, 1, 0)], [(D, 2, 0)], [(D, -1, 0)], [(kg, 1, 0), (D, -1, 0)]]
        out += list(itertools.product(S, repeat=3))
    return out

def dimkey(ents):
    return tuple(sorted(U.dims_of_compound(ents).items()))

def jobs(tier, seed, report):
    rnd = random.Random(seed)
    I = harness.interp_for('dev')
    ps, facts, nconst = pool(I, tier, rnd)
    allq = ps + facts
    report.bounds = {'magnitudes': 'unbounded symbolic rationals', 'units': f'{len(ps)} literal units (14-unit basis, prefixed / powered / quotient variants, the plain number) + {len(facts)} distinct units of the {nconst} shipped constants',
                     'triples': ('seeded sample: 260 triples for the multiplicative laws plus 48 of the 128 directed partial-reconstruction triples (btu, hour at powers 1, 2, -1 and kg/D), 200 same-dimension triples for the additive and distributive laws' if tier == 'quick' else 'all same-dimension triples; 3000 seeded triples for the multiplicative laws plus all 128 directed partial-reconstruction triples')}
    report.outside = ['associativity / distributivity of sums that involve an offset temperature scale (commutativity is checked under either reading of the degree; conversions of those scales: C09; in products they are covered, read as intervals)', 'that a fact phrase finds its constant (C16, not applicable)', 'quantities with more than the units listed']
    report.assumptions = ['BigRational exact (SMT Real, nonlinear)', 'declared unit scales (checked against the standards in C05)', 'a looked-up fact is a quantity with one of the shipped units and an arbitrary value']
    report.models_used = ['num', 'coll', 'core']
    report.required_witnesses = ['add-commutes', 'mul-commutes', 'add-associates', 'mul-associates', 'distributes', 'self-difference-zero', 'self-quotient-one', 'fact-unit-in-law', 'incompatible-refused-both-ways']
    js = []
    byd = {}
    for q in allq: byd.setdefault(dimkey(q), []).append(q)
    same = []
    for k, qs in byd.items():
        for t in itertools.product(qs, repeat=3): same.append(t)
    rnd.shuffle(same)
    mult = [tuple(rnd.choice(allq) for _ in range(3)) for _ in range(260 if tier == 'quick' else 3000)]
    # zero-point scales (°C, °F) in PRODUCTS: the purely multiplicative laws only (sums that mix a zero-point scale with
    # kelvin have no reading under which they commute; conversions of such scales are C09)
    OFF = [ul.resolve(I, n) for n in ul.OFFSET_UNITS]
    So = [[(OFF[0], 1, 0)], [(OFF[1], 1, 0)], [(ul.resolve(I, 'Meter'), 1, 0)], [(ul.resolve(I, 'Kelvin'), 1, 0)], [(OFF[0], 1, 0), (ul.resolve(I, 'Second'), -1, 0)]]
    offm = [t for t in itertools.product(So, repeat=3) if any(U.is_offset(u) for q in t for u, _, _ in q)]
    rnd.shuffle(offm)
    if tier == 'quick': offm = offm[:40]
    for i in range(0, len(offm), 4): js.append({'name': f'offsetmult-{i}', 'kind': 'offsetmult', 'triples': offm[i:i + 4]})
    K_ = ul.resolve(I, 'Kelvin')
    oa = [([(OFF[0], 1, 0)], [(K_, 1, 0)]), ([(OFF[1], 1, 0)], [(K_, 1, 0)]), ([(OFF[0], 1, 0)], [(OFF[1], 1, 0)]), ([(OFF[0], 1, 0)], [(OFF[0], 1, 0)]), ([(OFF[1], 1, 0)], [(OFF[1], 1, 0)]), ([(OFF[0], 1, 0)], [(K_, 1, 3)])]
    js.append({'name': 'offsetadd-0', 'kind': 'offsetadd', 'pairs': oa})
    part = partial_families(I); rnd.shuffle(part)
    mult = (part[:48] if tier == 'quick' else part) + mult
    mixed = [tuple(rnd.choice(allq) for _ in range(2)) for _ in range(60)]
    nsame = 200 if tier == 'quick' else len(same)
    for i in range(0, nsame, 4): js.append({'name': f'additive-{i}', 'kind': 'additive', 'triples': same[i:i + 4]})
    for i in range(0, len(mult), 4): js.append({'name': f'multiplicative-{i}', 'kind': 'multiplicative', 'triples': mult[i:i + 4]})
    for i in range(0, len(mixed), 6): js.append({'name': f'mixed-{i}', 'kind': 'mixed', 'pairs': mixed[i:i + 6]})
    for i in range(0, len(allq), 6): js.append({'name': f'self-{i}', 'kind': 'self', 'units': allq[i:i + 6]})
    report.extra = {'fact_units': [ul.names_list(f) for f in facts][:60]}
    return js

class Refused(Exception):
    def __init__(self, kind): self.kind = kind

def op(I, name, a, b):
    FN = rt.find_fn(I, name, contains='eval::', nargs=3)
    r = I.run_body(FN, [rt.span(0, 1), rt.numeric(a[0], rt.compound(I, a[1])), rt.numeric(b[0], rt.compound(I, b[1]))])
    if r.variant == 'Err': raise Refused(r.items[0].items[1].variant)
    num = r.items[0]
    v = mnum.rat_arg(I, num.items[0]); R = rt.read_compound(I, num.items[1])
    return (v, [(u, I.concretize(p, what='power'), I.concretize(f, what='prefix')) for u, p, f in R])

def si(I, q):
    # a zero-point scale inside a product counts with the size of its degree (interval reading, as C09 states it)
    sc = lambda u: U.scale_of(u) if U.is_offset(u) else ul.declared_scale(I, u)[1]
    return mnum.rmul(q[0], ul.F_of(I, q[1], sc)), U.dims_of_compound(q[1])

def si_absolute(I, q):
    """SI value with the zero point added where the unit is a lone zero-point scale of power one (else as si)"""
    v, ents = q
    if len(ents) == 1 and U.is_offset(ents[0][0]) and ents[0][1] == 1:
        u, _, f = ents[0]
        return mnum.radd(mnum.rmul(v, U.scale_of(u) * Fraction(10) ** f), U.OFFSETS[U.key(u)])
    return si(I, q)[0]

def run_job(job, res, prefixes, budget, deadline):
    I = harness.interp_for('dev', {'pow_bound': 80})
    facts = {tuple(map(tuple, f)) for f in db_units(I)[0]}
    def is_fact(u): return tuple(map(tuple, u)) in facts
    def law(name, units, lhs, rhs, witness, guard=None, either_reading=False):
        """lhs, rhs: callables (I, a, b, c) -> quantity; both executed on one path"""
        def entry(I):
            x, y, z = z3.Real('x'), z3.Real('y'), z3.Real('z')
            qs = [(x, list(units[0])), (y, list(units[1] if len(units) > 1 else units[0])), (z, list(units[2] if len(units) > 2 else units[0]))]
            if guard is not None: I.assume(guard(x, y, z))
            I.path_state['in'] = (x, y, z)
            out = []
            for f in (lhs, rhs):
                try: out.append(('ok', f(I, *qs)))
                except Refused as e: out.append(('refused', e.kind))
            return out
        def on_path(I, out, res):
            kind, r = out
            io = I.path_state.get('in')
            if io is None: return
            x, y, z = io
            def case(m):
                return {'op': 'law', 'law': name, 'units': [ul.entries_json(I, list(u)) for u in units], 'names': [ul.names_list(list(u)) for u in units],
                        'values': [str(rt.mval(m, v)) for v in (x, y, z)]}
            def cand(role, detail, m=None):
                if m is None:
                    rr, m = I.model_for(None)
                    if m is None: return
                res['candidates'].append({'role': role, 'case': case(m), 'detail': detail})
            res['obligations'] += 1
            if kind == 'panic': cand('law-panics', str(r)); return
            if kind != 'ok': return
            (k1, q1), (k2, q2) = r
            if k1 != k2:
                # a division by zero may be discovered on one side only when the other side is refused earlier; anything else is asymmetric
                cand('refused-on-one-side', f'{name}: {k1} {q1 if k1 == "refused" else ""} vs {k2} {q2 if k2 == "refused" else ""}'); return
            if k1 == 'refused':
                res['discharged'] += 1; res.witness('incompatible-refused-both-ways'); return
            res['discharged'] += 1
            (v1, d1), (v2, d2) = si(I, q1), si(I, q2)
            res['obligations'] += 1
            if d1 != d2: cand('dimensions-differ', f'{name}: {d1} vs {d2}'); return
            res['discharged'] += 1
            try:
                P, _, zero = ratfun.difference(mnum.rz(v1), mnum.rz(v2)); neg = (P != 0) if not zero else False
            except ratfun.NotRational:
                neg = znot(mnum.req(v1, v2))
            role = 'si-values-differ'
            if either_reading:
                # a sum with a zero-point scale: equal under the interval reading (size of the degree only) OR under the
                # absolute reading (zero point added) -- a violation only if it fails under both
                a1, a2 = si_absolute(I, q1), si_absolute(I, q2)
                neg = zand(neg, znot(mnum.req(a1, a2))); role = 'offset-sum-not-commutative'
            st = res.obligation(I, neg, f'{name}: equal SI value', lambda m: cand(role, f'{name}: {rt.mval(m, mnum.rz(v1))} vs {rt.mval(m, mnum.rz(v2))} (units {q1[1]} / {q2[1]})', m))
            if st == 'unsat':
                res.witness(witness)
                if any(is_fact(u) for u in units): res.witness('fact-unit-in-law')
            if len(res['samples']) < 5 and st == 'unsat' and len(units) == 3 and len({tuple(map(tuple, u)) for u in units}) >= 2:
                res['samples'].append({'law': name, 'units': [ul.names_list(list(u)) for u in units], 'lhs': str(z3.simplify(mnum.rz(q1[0])))[:100] + ' ' + str(q1[1]), 'rhs': str(z3.simplify(mnum.rz(q2[0])))[:100] + ' ' + str(q2[1])})
        harness.explore(I, res, entry, on_path, None, 100000, deadline)
    k = job['kind']
    if k == 'additive':
        for t in job['triples']:
            law('a+b = b+a', t, lambda I, a, b, c: op(I, 'add', a, b), lambda I, a, b, c: op(I, 'add', b, a), 'add-commutes')
            law('(a+b)+c = a+(b+c)', t, lambda I, a, b, c: op(I, 'add', op(I, 'add', a, b), c), lambda I, a, b, c: op(I, 'add', a, op(I, 'add', b, c)), 'add-associates')
            law('(a-b)+c = a-(b-c)', t, lambda I, a, b, c: op(I, 'add', op(I, 'sub', a, b), c), lambda I, a, b, c: op(I, 'sub', a, op(I, 'sub', b, c)), 'add-associates')
    elif k == 'multiplicative':
        for t in job['triples']:
            law('a*b = b*a', t, lambda I, a, b, c: op(I, 'mul', a, b), lambda I, a, b, c: op(I, 'mul', b, a), 'mul-commutes')
            law('(a*b)*c = a*(b*c)', t, lambda I, a, b, c: op(I, 'mul', op(I, 'mul', a, b), c), lambda I, a, b, c: op(I, 'mul', a, op(I, 'mul', b, c)), 'mul-associates')
            law('(a/b)*c = a/(b/c)', t, lambda I, a, b, c: op(I, 'mul', op(I, 'div', a, b), c), lambda I, a, b, c: op(I, 'div', a, op(I, 'div', b, c)), 'mul-associates', guard=lambda x, y, z: z3.And(y != 0, z != 0))
            # distributivity needs b and c of one dimension
            if dimkey(list(t[1])) == dimkey(list(t[2])):
                law('a*(b+c) = a*b + a*c', t, lambda I, a, b, c: op(I, 'mul', a, op(I, 'add', b, c)), lambda I, a, b, c: op(I, 'add', op(I, 'mul', a, b), op(I, 'mul', a, c)), 'distributes')
            t2 = (t[0], t[1], t[1])
            law('a*(b+c) = a*b + a*c', t2, lambda I, a, b, c: op(I, 'mul', a, op(I, 'add', b, c)), lambda I, a, b, c: op(I, 'add', op(I, 'mul', a, b), op(I, 'mul', a, c)), 'distributes')
    elif k == 'offsetmult':
        for t in job['triples']:
            law('a*b = b*a', t, lambda I, a, b, c: op(I, 'mul', a, b), lambda I, a, b, c: op(I, 'mul', b, a), 'mul-commutes')
            law('(a*b)*c = a*(b*c)', t, lambda I, a, b, c: op(I, 'mul', op(I, 'mul', a, b), c), lambda I, a, b, c: op(I, 'mul', a, op(I, 'mul', b, c)), 'mul-associates')
            law('(a/b)*c = a/(b/c)', t, lambda I, a, b, c: op(I, 'mul', op(I, 'div', a, b), c), lambda I, a, b, c: op(I, 'div', a, op(I, 'div', b, c)), 'mul-associates', guard=lambda x, y, z: z3.And(y != 0, z != 0))
    elif k == 'offsetadd':
        for p in job['pairs']:
            law('a+b = b+a (either reading of the degree)', p, lambda I, a, b, c: op(I, 'add', a, b), lambda I, a, b, c: op(I, 'add', b, a), 'add-commutes', either_reading=True)
    elif k == 'mixed':
        for p in job['pairs']:
            law('a+b = b+a', p, lambda I, a, b, c: op(I, 'add', a, b), lambda I, a, b, c: op(I, 'add', b, a), 'add-commutes')
            law('a-b = -(b-a)', p, lambda I, a, b, c: op(I, 'sub', a, b), lambda I, a, b, c: op(I, 'sub', (0, []), op(I, 'sub', b, a)), 'add-commutes')
    else:
        for u in job['units']:
            zero = lambda I, a, b, c: (mnum.rmul(0, a[0]), a[1])
            law('a-a = 0', (u,), lambda I, a, b, c: op(I, 'sub', a, (a[0], list(a[1]))), lambda I, a, b, c: (0, a[1]), 'self-difference-zero')
            law('a/a = 1', (u,), lambda I, a, b, c: op(I, 'div', a, (a[0], list(a[1]))), lambda I, a, b, c: (1, []), 'self-quotient-one', guard=lambda x, y, z: x != 0)

# ---------------------------------------------------------------- replay
def rop(name, a, b):
    """one operator on the real build (both profiles): {'dev': quantity|('refused', msg)|('panic', msg), ...}"""
    import replay_client
    out = replay_client.run_cases([{'op': 'numeric_op', 'fn': name, 'a': a, 'b': b}], profiles=REPLAY_PROFILES)[0]
    return out
def confirm(c, outs):
    """the law is re-evaluated step by step through the operator entry points of the real build"""
    case = c['case']
    import replay_client
    vals = [Fraction(v) for v in case['values']]
    units = case['units']
    while len(units) < 3: units = units + [units[0]]
    names = case['names']
    while len(names) < 3: names = names + [names[0]]
    Q = [{'value': f'{v.numerator}/{v.denominator}', 'unit': u} for v, u in zip(vals, units)]
    ZERO = {'value': '0/1', 'unit': []}
    for prof in REPLAY_PROFILES:
        def ev(name, a, b):
            if a is None or b is None: return None
            o = replay_client.run_profile([{'op': 'numeric_op', 'fn': name, 'a': a, 'b': b}], prof)[0]
            if 'panic' in o: raise RuntimeError('panic: ' + o['panic'])
            r = (o.get('ok') or [{}])[0]
            if 'ok' not in r: return None
            return {'value': r['ok']['value'], 'unit': r['ok']['unit']}
        a, b, c_ = Q
        law = case['law']
        try:
            if law.startswith('a+b = b+a'): l, r = ev('add', a, b), ev('add', b, a)
            elif law == 'a-b = -(b-a)': l, r = ev('sub', a, b), ev('sub', ZERO, ev('sub', b, a))
            elif law == '(a+b)+c = a+(b+c)': l, r = ev('add', ev('add', a, b), c_), ev('add', a, ev('add', b, c_))
            elif law == '(a-b)+c = a-(b-c)': l, r = ev('add', ev('sub', a, b), c_), ev('sub', a, ev('sub', b, c_))
            elif law == 'a*b = b*a': l, r = ev('mul', a, b), ev('mul', b, a)
            elif law == '(a*b)*c = a*(b*c)': l, r = ev('mul', ev('mul', a, b), c_), ev('mul', a, ev('mul', b, c_))
            elif law == '(a/b)*c = a/(b/c)': l, r = ev('mul', ev('div', a, b), c_), ev('div', a, ev('div', b, c_))
            elif law == 'a*(b+c) = a*b + a*c': l, r = ev('mul', a, ev('add', b, c_)), ev('add', ev('mul', a, b), ev('mul', a, c_))
            elif law == 'a-a = 0': l, r = ev('sub', a, a), {'value': '0/1', 'unit': a['unit']}
            elif law == 'a/a = 1': l, r = ev('div', a, a), {'value': '1/1', 'unit': []}
            else: return False, 'unknown law'
        except RuntimeError as e:
            return True, f'{prof}: {e}'
        if (l is None) != (r is None): return True, f'{prof}: {law}: one side is refused, the other is {l or r}'
        if l is None: continue
        from props.c04 import unit_entries
        le, re_ = unit_entries(l['unit']), unit_entries(r['unit'])
        lv = rt.parse_frac(l['value']) * ul.decl_si_factor(le); rv = rt.parse_frac(r['value']) * ul.decl_si_factor(re_)
        if U.dims_of_compound(le) != U.dims_of_compound(re_): return True, f'{prof}: {law}: dimensions {U.dims_of_compound(le)} vs {U.dims_of_compound(re_)}'
        if lv != rv and 'either reading' in law:
            def absolute(v, ents):
                if len(ents) == 1 and U.is_offset(ents[0][0]) and ents[0][1] == 1: return v + U.OFFSETS[U.key(ents[0][0])]
                return v
            if absolute(lv, le) == absolute(rv, re_): continue
            return True, f'{prof}: {law}: {l["value"]} {ul.names_list(le)} vs {r["value"]} {ul.names_list(re_)} -- SI {lv} vs {rv} as intervals, {absolute(lv, le)} vs {absolute(rv, re_)} as temperatures'
        if lv != rv: return True, f'{prof}: {law}: SI values {lv} vs {rv}'
    return False, 'real build satisfies the law on this input'

def validate(tier, seed, report):
    from props import unitlib
    return unitlib.validate_kernels(seed, 80 if tier == 'quick' else 400, ops=('add', 'sub', 'mul', 'div'))

def known_match(k, c): return True

if __name__ == '__main__':
    sys.exit(harness.main(sys.modules[__name__]))
