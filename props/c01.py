"""C01  Numeric expressions evaluate to the exact rational value.

The whole pipeline -- Lexer::next, Parser/grammar::{root, operation, value, ...} (syntree builder model), the Query
iterator, eval::eval (OPERATION / NUMBER / PERCENTAGE arms), DelayedEval, eval::{add, sub, mul, div, pow}, Numeric::new,
the Rational operator impls, Compound::factor / mul on empty units -- is executed from MIR on query templates
        L0 o1 L1 o2 L2 ...   with every placement of parentheses (nesting <= 2) and optional percent signs,
where every operator character o_k is a SOLVER VARIABLE over + - * / ^ (the lexer's branches on it are decided by
feasibility queries), and every literal's value L_i is an unbounded symbolic rational: the NUMBER leaf's
`str::parse::<Rational>` is cut at exactly the literal's span and replaced by L_i (C07 proves the cut function equal to
the value the literal spells).  A literal in exponent position is an integer in [-E, E].
On every path z3 proves, against the reference evaluator of spec/exprs.py applied to the reference parse of the token list:
        result is Ok(v)            =>  the reference does not divide by zero  and  v == reference value
        result is Err(DivideByZero) =>  the reference divides by zero (a zero divisor, or zero to a negative power)
        anything else (other error, several results, parse failure) is a violation candidate.
Counterexamples are rendered as query text (the model's operator characters, blanks and literal values) and replayed on
the native dev and release builds.
"""
import z3, sys, random, itertools
from fractions import Fraction
import harness, rt, qrun, ratfun
from mirsym import *
from models import num as mnum
from spec import exprs as X
from props import exprlib as el

ID = 'C01'
PROFILES = ['dev', 'release']
REPLAY_PROFILES = ['dev', 'release']
TIME_LIMIT = {'quick': 900, 'thorough': 3300}
BUDGET = 120
FIRST_BUDGET = 60

def paren_sets(n, maxdepth=2, full=True):
    """all sets of non-crossing operand ranges (i, j), i < j, of nesting depth <= maxdepth"""
    ranges = [(i, j) for i in range(n) for j in range(i + 1, n) if full or (i, j) != (0, n - 1)]
    out = []
    def crossing(a, b): return a[0] < b[0] <= a[1] < b[1] or b[0] < a[0] <= b[1] < a[1]
    def depth(rs):
        d = 0
        for r in rs: d = max(d, sum(1 for q in rs if q[0] <= r[0] and r[1] <= q[1]))
        return d
    for k in range(0, len(ranges) + 1):
        for rs in itertools.combinations(ranges, k):
            if any(crossing(a, b) for a in rs for b in rs): continue
            if depth(rs) > maxdepth: continue
            out.append(rs)
    return out

def tokens_for(n, parens, pct=(), ops=None, allowed='+-*/^'):
    toks = []
    for i in range(n):
        al = allowed[i - 1] if isinstance(allowed, (list, tuple)) and i > 0 else allowed
        if i > 0: toks.append(('op', ops[i - 1] if ops else None, al.replace('^', '') if i in pct else al))   # N% is not an integer: not an exponent
        for r in sorted([r for r in parens if r[0] == i], key=lambda r: -r[1]): toks.append(('lp',))
        toks.append(('leaf', i))
        if i in pct: toks.append(('pct',))
        for r in sorted([r for r in parens if r[1] == i], key=lambda r: -r[0]): toks.append(('rp',))
    return toks

def jobs(tier, seed, report):
    nmax = 4 if tier == 'quick' else 5
    report.bounds = {'operands': f'2..{nmax} literals, every operator slot symbolic over + - * / ^', 'parentheses': 'every set of non-crossing groups with nesting <= 2 for 2..3 operands (thorough: ..4); a seeded sample of 6 shapes for 4 operands (thorough: 4 shapes for 5, exponents in [-1,1] there)',
                     'literal_values': 'unbounded symbolic rationals (integer part unbounded)', 'exponents': 'integer literals in [-3,3] (2 operands..3), [-2,2] (4 operands), [-1,1] (5 operands, thorough only); groups in exponent position: integers in [-2,2]',
                     'percent': 'each single literal, and all literals, of the flat shapes', 'profiles': 'dev and release MIR'}
    report.outside = ['more operands / deeper nesting', 'non-integer exponents (refused by the code; checked in C04)', 'digits of the literals (C07)', 'sin/cos']
    report.assumptions = ['BigRational exact (SMT Real, nonlinear)', 'str::parse::<Rational> on a literal span returns the value it spells (proved separately by C07)', 'syntree builder/tree model (differentially tested against the crate)']
    report.models_used = ['num', 'core', 'coll', 'strings', 'tree']
    report.required_witnesses = ['value-exact', 'divide-by-zero-reported', 'zero-to-negative-power-reported', 'percent-is-hundredth', 'grouping-inside-parentheses', 'mixed-precedence']
    rnd = random.Random(seed)
    js = []
    for prof in PROFILES:
        for n in range(2, nmax + 1):
            shapes = paren_sets(n)
            flat, rest = shapes[0], shapes[1:]
            rnd.shuffle(rest)
            if tier == 'quick':
                if n == 4: rest = rest[:6 if prof == 'dev' else 0]
                if prof == 'release' and n == 3: rest = rest[:2]
            else:
                if n == 5: rest = rest[:4 if prof == 'dev' else 0]
                if prof == 'release' and n == 4: rest = rest[:8]
            for si, ps in enumerate([flat] + rest):
                js.append({'name': f'{prof}-n{n}-p{si}', 'profile': prof, 'n': n, 'parens': ps, 'pct': ()})
            if n <= 3 or (prof == 'dev' and tier != 'quick' and n <= 4):
                for pc in [(i,) for i in range(n)] + [tuple(range(n))]:
                    js.append({'name': f'{prof}-n{n}-pct{"".join(map(str, pc))}', 'profile': prof, 'n': n, 'parens': (), 'pct': pc})
        js.append({'name': f'{prof}-single', 'profile': prof, 'n': 1, 'parens': (), 'pct': ()})
        js.append({'name': f'{prof}-single-pct', 'profile': prof, 'n': 1, 'parens': (), 'pct': (0,)})
        js.append({'name': f'{prof}-starstar', 'profile': prof, 'n': 3, 'parens': (), 'pct': (), 'ops': ['*', '**']})
        js.append({'name': f'{prof}-starstar2', 'profile': prof, 'n': 3, 'parens': (), 'pct': (), 'ops': ['**', '+']})
    return js

def run_job(job, res, prefixes, budget, deadline):
    I = harness.interp_for(job['profile'], {'pow_bound': 40})
    n = job['n']
    tpl = el.Template(tokens_for(n, job['parens'], job['pct'], job.get('ops')), name=job['name'])
    eb = 3 if n <= 3 else (2 if n == 4 else 1)      # exponent bound per operand count
    def entry(I):
        s, info = el.build(I, tpl, exp_bound=eb)
        I.path_state['s'] = s; I.path_state['info'] = info
        I.path_state['leaves'] = {span: info['leaves'][li][0] for span, li in info['leafspan'].items()}
        return qrun.run_query(I, s)
    def on_path(I, out, res):
        check_path(I, out, res, tpl, job['profile'])
    harness.explore(I, res, entry, on_path, prefixes, budget, deadline)

def make_case(I, m, tpl, toks):
    s = I.path_state['s']; info = I.path_state['info']
    vals = {i: rt.mval(m, L) for i, (L, K, F) in info['leaves'].items()}
    return {'op': 'query', 'text': render(m, tpl, info, toks, vals), 'tokens': [list(t) for t in toks], 'leaves': {str(i): str(v) for i, v in vals.items()}}

def render(m, tpl, info, toks, vals):
    """query text of this path under model m: blanks and operators from the model, literals spelling the model's values"""
    out = []
    wi = iter(info['wsvars'])
    for ti, t in enumerate(toks):
        g = tpl.gaps[ti]
        out.append(g if isinstance(g, str) else ''.join(chr(rt.mval(m, next(wi))) for _ in range(g)))
        k = t[0]
        if k == 'leaf': out.append(lit(vals[t[1]]))
        elif k == 'op': out.append(t[1])
        else: out.append({'pct': '%', 'lp': '(', 'rp': ')', 'comma': ','}.get(k, t[1] if len(t) > 1 else ''))
    g = tpl.gaps[len(toks)]
    out.append(g if isinstance(g, str) else ''.join(chr(rt.mval(m, next(wi))) for _ in range(g)))
    return ''.join(out)

def lit(v):
    """a literal of the language spelling v (finite decimals), else a parenthesised quotient of integers"""
    v = Fraction(v)
    d = v.denominator
    for p in (2, 5):
        while d % p == 0: d //= p
    if d == 1: return rt.frac_str(v)
    return f'({v.numerator} / {v.denominator})'

def check_path(I, out, res, tpl, prof):
    kind, r = out
    info = I.path_state.get('info')
    if info is None: return
    if kind not in ('ok', 'panic'): return
    toks = el.concrete_tokens(I, tpl, info)
    opsseq = ''.join(t[1] for t in toks if t[0] == 'op')
    def cand(role, detail, m=None):
        if m is None:
            rr, m = I.model_for(None)
            if m is None: return
        res['candidates'].append({'role': role, 'case': make_case(I, m, tpl, toks), 'detail': f'{prof}: {detail}'})
    if kind == 'panic':
        res['obligations'] += 1; cand('panic', str(r)); return
    ref = X.parse(toks)
    leaf = lambda i: info['leaves'][i][0]
    res['obligations'] += 1
    if r.parse.variant != 'Ok': cand('parse-failed', 'parse_root returned Err'); return
    if len(r.results) != 1: cand('result-count', f'{len(r.results)} results for one expression: {[x.variant for x in r.results]}'); return
    res['discharged'] += 1
    x = r.results[0]
    vref, eref = X.eval_sym(ref, leaf, el.ZOps(I))
    if x.variant == 'Err':
        ek = qrun.err_kind(x)
        if ek == 'DivideByZero':
            if res.obligation(I, znot(eref), 'DivideByZero only when the reference divides by zero', lambda m: cand('spurious-divide-by-zero', f'reference value {X.show(ref)}', m)) == 'unsat':
                res.witness('divide-by-zero-reported')
                if '^' in opsseq: res.witness('zero-to-negative-power-reported')
        else:
            res['obligations'] += 1; cand('refused', f'{ek} for {X.show(ref)}')
        return
    num = x.items[0]
    v = mnum.rat_arg(I, num.items[0]); unit = rt.read_compound(I, num.items[1])
    res['obligations'] += 1
    if unit: cand('unit-on-plain-number', str(unit)); return
    res['discharged'] += 1
    res.obligation(I, eref, 'a division by zero never yields a number', lambda m: cand('divide-by-zero-yields-number', f'got {rt.mval(m, v)} for {X.show(ref)}', m))
    if not (is_conc(eref) and not eref):
        if I.check(znot(eref)) != z3.sat: return
        I.assume(znot(eref))
    try:
        P, _, zero = ratfun.difference(mnum.rz(v), mnum.rz(vref)); neg = (P != 0) if not zero else False
    except ratfun.NotRational:
        neg = znot(mnum.req(v, vref))
    st = res.obligation(I, neg, 'value equals the exact value (expanded polynomial form)', lambda m: cand('wrong-value', f'got {rt.mval(m, v)}, exact value of {X.show(ref)} is {rt.mval(m, mnum.rz(vref))}', m))
    if st == 'unsat':
        res.witness('value-exact')
        if any(t[0] == 'pct' for t in toks): res.witness('percent-is-hundredth')
        if any(t[0] == 'lp' for t in toks): res.witness('grouping-inside-parentheses')
        if len({X.PRIO[c] for c in opsseq if c in X.PRIO}) >= 2: res.witness('mixed-precedence')
    if len(res['samples']) < 4 and len(opsseq) >= 2:
        res['samples'].append({'template': X.show(ref), 'operators': opsseq, 'implementation_value': str(z3.simplify(mnum.rz(v)))[:160], 'obligation': 'PC and value != reference value is unsat', 'verdict': st})

# ---------------------------------------------------------------- replay
def expected(case):
    toks = [tuple(t) for t in case['tokens']]
    leaves = {int(k): Fraction(v) for k, v in case['leaves'].items()}
    try: return ('value', X.eval_exact(X.parse(toks), lambda i: leaves[i]))
    except X.DivZero: return ('divzero', None)

def confirm(c, outs):
    exp = expected(c['case'])
    for prof, o in outs.items():
        if 'panic' in o: return True, f'{prof}: panic {o["panic"]}'
        rs = o.get('ok')
        if not isinstance(rs, list): return True, f'{prof}: {o}'
        if len(rs) != 1: return True, f'{prof}: {len(rs)} results: {rs}'
        r = rs[0]
        if exp[0] == 'divzero':
            if 'ok' in r: return True, f'{prof}: division by zero gave {r["ok"]["value"]}'
            if 'divide by zero' not in r.get('err', ''): return True, f'{prof}: error {r.get("err")!r} instead of divide by zero'
            continue
        if 'err' in r: return True, f'{prof}: error {r["err"]!r}, exact value is {exp[1]}'
        got = rt.parse_frac(r['ok']['value'])
        if got != exp[1] or r['ok']['unit']: return True, f'{prof}: got {got} {r["ok"]["unit_text"]}, exact value is {exp[1]}'
    return False, 'real build agrees with the exact evaluator'

def validate(tier, seed, report):
    from props import exprlib
    return exprlib.validate_pipeline(seed, 60 if tier == 'quick' else 300)

def known_match(k, c): return True

if __name__ == '__main__':
    sys.exit(harness.main(sys.modules[__name__]))
