"""C10  Rounding functions return the mathematically defined integer or decimal.

builtin::{floor, ceil, round} (and Rational::{floor, ceil, round}, eval::builtin name lookup) executed from the dev AND
release MIR on a Vec<Numeric> whose first value is an unbounded symbolic rational x, introduced as integer part +
fraction (so that no obligation needs to_int or unbounded witnesses):
    digits n = 0 / floor / ceil :  x = K + f,               K: Int, 0 <= f < 1
    digits n > 0               :  x = K + (j + f)/10^n,    0 <= j < 10^n   (x*10^n = K*10^n + j + f)
    digits n < 0               :  x = (K + f) * 10^-n                      (x*10^n = K + f)
Oracle (stated without floor functions): floor r = K; ceil r = K (+1 iff f != 0); round: r*10^n is one of the two
integers adjacent to x*10^n, |r - x| <= 10^-n / 2, and on a tie |r| > |x|.  The unit is carried through; any other
argument count is an error.
"""
import z3, sys
from fractions import Fraction
import harness, rt
from mirsym import *
from models import num as mnum
from models.coll import vec
from models.core import deref

ID = 'C10'
PROFILES = ['dev', 'release']
REPLAY_PROFILES = ['dev', 'release']
BUDGET = 40
TIME_LIMIT = {'quick': 600, 'thorough': 1500}

def jobs(tier, seed, report):
    nmax = 6 if tier == 'quick' else 9
    report.bounds = {'x': 'unbounded rational (integer part unbounded Int, fraction in [0,1))', 'digits_argument': f'-{nmax}..{nmax}, each value a separate job',
                     'argument_count': '0..3', 'profiles': 'dev (debug assertions, overflow checks) and release MIR'}
    report.outside = [f'|digits| > {nmax}', 'sin/cos (floating point, not part of the property)', 'num-rational itself (trunc/round modelled as exact integer-part arithmetic)']
    report.assumptions = ['Ratio::round = nearest integer, halves away from zero; Ratio::trunc = toward zero (num-rational 0.4 documented behaviour)',
                          'BigRational exact (SMT Real)', 'Vec/IntoIter, Option plumbing, str equality models']
    report.models_used = ['num', 'core', 'coll', 'strings']
    report.required_witnesses = ['floor-value', 'ceil-value', 'round0-value', 'round-pos-digits', 'round-neg-digits', 'arity-error', 'unit-carried']
    js = []
    for prof in PROFILES:
        for fn in ('floor', 'ceil'):
            js.append({'name': f'{prof}-{fn}', 'profile': prof, 'fn': fn, 'n': None})
        js.append({'name': f'{prof}-round-1arg', 'profile': prof, 'fn': 'round', 'n': None})
        for n in range(-nmax, nmax + 1):
            js.append({'name': f'{prof}-round-n{n}', 'profile': prof, 'fn': 'round', 'n': n})
        for fn in ('floor', 'ceil', 'round'):
            for cnt in (0, 2, 3):
                if fn == 'round' and cnt == 2: continue
                js.append({'name': f'{prof}-{fn}-arity{cnt}', 'profile': prof, 'fn': fn, 'arity': cnt, 'n': None})
    return js

def sym_x(I, n):
    """returns (x, scaled_int_part, frac) with x*10^n = scaled_int_part + frac"""
    K = z3.Int('K'); f = z3.Real('f')
    I.assume(z3.And(f >= 0, f < 1))
    if not n:
        x = z3.ToReal(K) + f
        mnum.register_decomp(I, x, K, f)
        return x, K, f
    if n > 0:
        j = z3.Int('j'); p = 10 ** n
        I.assume(z3.And(j >= 0, j < p))
        x = z3.ToReal(K) + (z3.ToReal(j) + f) / p
        mnum.register_decomp(I, x, K, (z3.ToReal(j) + f) / p)
        mnum.register_decomp(I, x * p, K * p + j, f)
        return x, K * p + j, f
    p = 10 ** (-n)
    x = (z3.ToReal(K) + f) * p
    mnum.register_decomp(I, x / p, K, f)
    return x, K, f

def run_job(job, res, prefixes, budget, deadline):
    I = harness.interp_for(job['profile'])
    fn = job['fn']; n = job['n']; arity = job.get('arity')
    LOOKUP = rt.find_fn(I, 'builtin', nargs=1)
    def entry(I):
        name = I.str_const(fn)
        f = I.call(LOOKUP.name, [name])
        if f.variant != 'Some': raise PathEnd('lookup-failed', fn)
        x, kk, fr = sym_x(I, n)
        p = z3.Int('unit_power'); q = z3.Int('unit_prefix')
        I.assume(z3.And(p != 0, p >= -3, p <= 3, q >= -24, q <= 24))
        unit = rt.compound(I, [('Meter', p, q)])
        args = [rt.numeric(x, unit)]
        if arity is not None:
            args = [rt.numeric(z3.Real(f'a{i}') if i else x, rt.compound(I, [])) for i in range(arity)]
        elif n is not None:
            args.append(rt.numeric(z3.ToReal(z3.IntVal(n)), rt.compound(I, [])))
        I.path_state['in'] = (x, kk, fr, unit)
        return I.call(f.items[0], [rt.span(0, 7), vec(args)])
    def on_path(I, out, res):
        kind, r = out
        x, kk, fr, unit = I.path_state['in']
        def case_from(m):
            xv = rt.mval(m, x)
            if arity is not None: return {'op': 'query', 'text': f'{fn}(' + ', '.join(['1.5'] * arity) + ')'}
            return {'op': 'query', 'text': f'{fn}({rt.frac_str(xv)}' + (f', {n}' if n is not None else '') + ')'}
        if kind == 'panic':
            rr, m = I.model_for(None)
            if m is not None: res['candidates'].append({'role': f'{fn}-panics', 'case': case_from(m), 'detail': f'{job["profile"]}: {r}'})
            return
        if kind != 'ok': return
        if arity is not None:
            res['obligations'] += 1
            if r.variant == 'Err' and r.items[0].items[1].variant == 'ArgumentMismatch':
                res['discharged'] += 1; res.witness('arity-error')
            else:
                res['candidates'].append({'role': 'wrong-arity-accepted', 'case': case_from(None) if False else {'op': 'query', 'text': f'{fn}(' + ', '.join(['1.5'] * arity) + ')'}, 'detail': repr(r)[:200]})
            return
        if r.variant != 'Ok':
            rr, m = I.model_for(None)
            res['obligations'] += 1
            res['candidates'].append({'role': f'{fn}-refused', 'case': case_from(m), 'detail': repr(r)[:200]})
            return
        num = r.items[0]
        val = mnum.rz(mnum.rat_arg(I, num.items[0]))
        # unit carried through unchanged
        res['obligations'] += 1
        got = rt.read_compound(I, num.items[1]); want = rt.read_compound(I, unit)
        if len(got) == len(want) and all(g[0] == w[0] and g[1] is w[1] and g[2] is w[2] for g, w in zip(got, want)):
            res['discharged'] += 1; res.witness('unit-carried')
        else:
            eq = zand(*[zand(g[1] == w[1], g[2] == w[2]) for g, w in zip(got, want)]) if len(got) == len(want) and all(g[0] == w[0] for g, w in zip(got, want)) else False
            if eq is False or I.check(znot(eq)) != z3.unsat:
                rr, m = I.model_for(None)
                res['candidates'].append({'role': 'unit-not-carried', 'case': {'op': 'query', 'text': f'{fn}({rt.frac_str(rt.mval(m, x))} m)'}, 'detail': f'{got} vs {want}'})
            else:
                res['discharged'] += 1; res.witness('unit-carried')
        kz = z3.ToReal(mnum.iz(kk)); fz = fr
        if fn == 'floor': bad = val != kz; res.witness('floor-value')
        elif fn == 'ceil': bad = val != z3.If(fz == 0, kz, kz + 1); res.witness('ceil-value')
        else:
            nn = n or 0
            scale = z3.RealVal(10) ** nn if nn >= 0 else 1 / (z3.RealVal(10) ** (-nn))
            scale = z3.simplify(scale)
            ulp_half = z3.simplify(1 / (2 * scale))
            xs = z3.ToReal(mnum.iz(kk)) + fz         # = x * 10^n
            rs = val * scale
            dist = z3.If(val >= x, val - x, x - val)
            absr = z3.If(val >= 0, val, -val); absx = z3.If(x >= 0, x, -x)
            good = z3.And(z3.Or(rs == kz, rs == kz + 1), dist <= ulp_half, z3.Implies(dist == ulp_half, absr > absx))
            bad = z3.Not(good)
            res.witness('round0-value' if not nn else ('round-pos-digits' if nn > 0 else 'round-neg-digits'))
        def on_sat(m):
            res['candidates'].append({'role': f'{fn}-wrong-value', 'case': case_from(m), 'detail': f'{job["profile"]}: x={rt.mval(m, x)} got {rt.mval(m, val)}'})
        res.obligation(I, bad, f'{fn} value', on_sat)
        if len(res['samples']) < 2:
            res['samples'].append({'job': job['name'], 'path_condition': [str(c)[:100] for c in I.pc[2:8]], 'result': str(z3.simplify(val))[:200], 'obligation': f'{fn} spec (negation unsat)'})
    harness.explore(I, res, entry, on_path, prefixes, budget, deadline)

# ---------------------------------------------------------------- concrete oracle for replay
import re, math
def py_floor(q): return Fraction(q.numerator // q.denominator)
def py_ceil(q): return Fraction(-((-q.numerator) // q.denominator))
def py_round(q, n=0):
    s = Fraction(10) ** n
    y = q * s
    k = y.numerator // y.denominator; f = y - k
    if y >= 0: r = k if f < Fraction(1, 2) else k + 1
    else: r = k if f <= Fraction(1, 2) else k + 1
    return Fraction(r) / s
def parse_arg(t):
    t = t.strip()
    m = re.match(r'^\((-?\d+)/(\d+)\)$', t)
    if m: return Fraction(int(m.group(1)), int(m.group(2)))
    return Fraction(t)
def confirm(c, outs):
    case = c['case']; text = case['text']
    m = re.match(r'^(floor|ceil|round)\((.*)\)$', text)
    fn = m.group(1); inner = m.group(2)
    has_unit = inner.endswith(' m')
    if has_unit: inner = inner[:-2]
    args = [a for a in inner.split(',')] if inner.strip() else []
    for prof, o in outs.items():
        if 'panic' in o: return True, f'{prof}: panic: {o["panic"]}'
        rs = o.get('ok')
        if not isinstance(rs, list) or len(rs) != 1: return True, f'{prof}: unexpected result list {o}'
        r = rs[0]
        arity_ok = (len(args) == 1) or (fn == 'round' and len(args) == 2)
        if not arity_ok:
            if 'ok' in r: return True, f'{prof}: wrong argument count accepted'
            continue
        x = parse_arg(args[0]); n = int(args[1]) if len(args) > 1 else 0
        want = {'floor': py_floor, 'ceil': py_ceil}[fn](x) if fn != 'round' else py_round(x, n)
        if 'err' in r: return True, f'{prof}: refused: {r["err"]}'
        got = rt.parse_frac(r['ok']['value'])
        if got != want: return True, f'{prof}: {fn} gave {got}, mathematically {want}'
        if has_unit and r['ok']['unit'] != [['Meter', 1, 0]]: return True, f'{prof}: unit changed to {r["ok"]["unit"]}'
    return False, 'real build agrees with the oracle'

def known_match(k, c):
    pat = k.get('match', {})
    if 'detail_contains' in pat and pat['detail_contains'] not in (c.get('why', '') + ' ' + str(c.get('detail', ''))): return False
    return True

if __name__ == '__main__':
    sys.exit(harness.main(sys.modules[__name__]))
