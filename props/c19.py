"""C19  The command line prints exactly what the library computed.

`main` of src/bin/any.rs is executed from the binary's MIR on top of the library's MIR, with the process environment as
stubs (option parsing, logger, stdout as a list of output pieces, Db::open, codespan's file table and diagnostic
emitter, parse/query as a prepared result iterator).  The library code that main calls to render a result --
Rational::{numer, denom, is_one, display}, Compound::{has_numerator, display}, compound::Display::fmt,
unit::Display::fmt, Prefix::find, pow_into_char, Unit::format_suffix and every unit's format closure -- runs from MIR.
Symbolic: the `--exact` and `--describe` flags; a list of up to 2 results, each Ok (value = n/d with SOLVER-VARIABLE
numerator and denominator, or the exact integer one; unit = concrete unit list with solver-variable powers and prefixes
in a small range) or Err (a located error).  On every path the emitted pieces must equal the reference line
    exact:  numerator, and "/" denominator iff the denominator is not one;   otherwise: the decimal rendering requested
    with limit 12 / exponent limit 12 / continuation mark on (the rendering itself is C08's subject: it is an opaque piece);
    then a blank iff some unit power is positive;  then the unit: numerator units joined by "⋅", "/" and the
    denominator units joined by "⋅" iff there are any, each as prefix + name + superscript power (|power| != 1), the
    name pluralised iff the value is not one AND exactly one unit is in the numerator;  then a newline;
an Err result produces one diagnostic with the error's range and message, and the remaining results are still printed.
Counterexamples are replayed by running the built `any` binary (private data directory) on a query with that result.
"""
import z3, sys, re, itertools, random
from fractions import Fraction
import harness, rt
from mirsym import *
from models import M as MODELS
from models import num as mnum, fmt as mfmt, coll
from models.core import some, none, ok, err, deref
from models.strings import StrS, gs, sref
from spec import units as U
from props import unitlib as ul

ID = 'C19'
PROFILES = ['dev+bin']
REPLAY_PROFILES = ['dev']
TIME_LIMIT = {'quick': 600, 'thorough': 1500}
BUDGET = 150
FIRST_BUDGET = 60
UNITSETS_MORE = [['Kelvin'], ['Ampere', 'Second'], ['units::WATT'], ['mass::POUND'], ['volume::LITRE', 'Second'], ['units::time::YEAR'], ['length::MILE', 'units::time::HOUR'], ['Mole'], ['Byte', 'Second']]
UNITSETS = [[], ['Meter'], ['Second'], ['units::time::DECADE'], ['units::time::CENTURY'], ['units::NEWTON'], ['Meter', 'Second'], ['energy::JOULE', 'KiloGram', 'Kelvin'], ['length::FOOT'], ['units::time::MILLENIUM', 'Second']]

_inst = False
def install(I):
    global _inst
    if _inst: return
    _inst = True
    def st(I): return I.path_state['cli']
    def M(pat):
        def deco(fn): MODELS.insert(0, (re.compile(pat), fn)); return fn
        return deco
    @M(r'^<Opts as (?:structopt::)?StructOpt>::from_args$')
    def from_args(I, m, a, dt):
        c = st(I); return VStruct('Opts', [VBool(c['describe']), VBool(c['exact']), VBool(False), coll.vec([StrS.from_text('q')])])
    @M(r'^pretty_env_logger::init$')
    def logger(I, m, a, dt): return VUnit()
    @M(r'^(?:[\w:]*::)?StandardStream::stdout$')
    def stdout(I, m, a, dt): return st(I)['out']
    @M(r'^<(?:[\w:]*::)?StandardStream as (?:std::io::)?Write>::write_fmt$')
    def out_write_fmt(I, m, a, dt):
        r = mfmt.fmt_write_fmt(I, m, a, dt); return ok(VUnit())
    @M(r'^(?:alloc::)?slice::<impl \[(?:std::string::)?String\]>::join::<&str>$')
    def join(I, m, a, dt): return StrS.from_text('q')
    @M(r'^(?:anything::)?(?:db::)?Db::open$')
    def db_open(I, m, a, dt): return ok(VObj('db'))
    @M(r'^(?:[\w:]*::)?SimpleFiles::<.*>::new$')
    def files_new(I, m, a, dt): return VObj('files', src=None)
    @M(r'^(?:[\w:]*::)?SimpleFiles::<.*>::add$')
    def files_add(I, m, a, dt): deref(I, a[0]).src = a[2]; return VInt(0, 'usize')
    @M(r"^<(?:[\w:]*::)?SimpleFiles<.*> as (?:[\w:]*::)?Files<'_>>::source$")
    def files_source(I, m, a, dt): return ok(sref(gs(I, deref(I, a[0]).src)))
    @M(r'^<(?:[\w:]*::)?Config as Default>::default$')
    def cfg_default(I, m, a, dt): return VObj('termconfig')
    @M(r'^(?:anything::)?(?:query::)?parse$')
    def parse(I, m, a, dt): return ok(VObj('parsed'))
    @M(r'^(?:anything::)?(?:query::)?query$')
    def query(I, m, a, dt):
        c = st(I); c['options'] = a[2]
        return VObj('veciter', items=list(c['results']), pos=0, end=None)
    @M(r"^<(?:anything::)?(?:query::)?Query<'_> as IntoIterator>::into_iter$")
    def query_into_iter(I, m, a, dt): return a[0]
    @M(r'^(?:anything::)?(?:error::)?Error::range$')
    def error_range(I, m, a, dt):
        e = deref(I, a[0]); sp = e.items[0]
        return VStruct('Range', [VInt(sp.items[0].v, 'usize'), VInt(sp.items[1].v, 'usize')])
    @M(r'^<(?:anything::)?(?:error::)?Error as ToString>::to_string$')
    def error_to_string(I, m, a, dt):
        e = deref(I, a[0]); return StrS.from_text('error:' + e.items[1].variant)
    @M(r'^(?:[\w:]*::)?Label::<usize>::primary::<.*>$')
    def label_primary(I, m, a, dt): return VObj('label', file=a[0], range=a[1], message=None)
    @M(r'^(?:[\w:]*::)?Label::<usize>::with_message::<.*>$')
    def label_msg(I, m, a, dt): a[0].message = gs(I, a[1]).text(); return a[0]
    @M(r'^(?:[\w:]*::)?Diagnostic::<usize>::error$')
    def diag_error(I, m, a, dt): return VObj('diag', message=None, labels=[])
    @M(r'^(?:[\w:]*::)?Diagnostic::<usize>::with_message::<.*>$')
    def diag_msg(I, m, a, dt): a[0].message = gs(I, a[1]).text(); return a[0]
    @M(r'^(?:[\w:]*::)?Diagnostic::<usize>::with_labels$')
    def diag_labels(I, m, a, dt): a[0].labels = list(coll.getvec(I, a[1]).items); return a[0]
    @M(r"^(?:[\w:]*::)?emit::<'_, (?:[\w:]*::)?SimpleFiles<.*>>$")
    def term_emit(I, m, a, dt):
        d = deref(I, a[3]); out = mfmt.getf(I, a[0])
        out.out.append(('diag', d.message, [(l.range.items[0].v, l.range.items[1].v, l.message) for l in d.labels]))
        return ok(VUnit())
    @M(r'^(?:std::boxed::|alloc::boxed::)?Box::<\[.*; \d+\]>::new_uninit$')
    def box_uninit(I, m, a, dt):
        # Box<MaybeUninit<[T; N]>>: MaybeUninit { uninit: (), value: ManuallyDrop { value: MaybeDangling(T) } }
        b = VObj('box', cell=Cell(VTuple([VUnit(), VStruct('ManuallyDrop', [VStruct('MaybeDangling', [UNINIT])])]))); b.fields = [b]; return b
    @M(r'^(?:std::boxed::|alloc::boxed::)?box_assume_init_into_vec_unsafe::<.*>$')
    def box_into_vec(I, m, a, dt): return coll.vec(list(a[0].cell.val.items[1].items[0].items[0].items))
    @M(r"^<(?:anything::)?rational::(?:display::)?Display<'_> as (?:std::fmt::|core::fmt::)?Display>::fmt$")
    def decimal_piece(I, m, a, dt):
        d = deref(I, a[0]); spec = deref(I, d.items[1]); r = deref(I, d.items[0])
        mfmt.getf(I, a[1]).out.append(('decimal', r, spec.items[0].v, spec.items[1].v, spec.items[2].v))
        return ok(VUnit())
    I.model_cache.clear()

def jobs(tier, seed, report):
    rnd = random.Random(seed)
    report.bounds = {'results': '1 or 2 results per query; each Ok or Err', 'value': 'n/d with solver-variable n and d >= 1 (coprimality not assumed), or exactly 1', 'units': f'{len(UNITSETS)} unit lists, powers solver variables over {{-12,-2,-1,1,2,3,12}}, prefix of the first unit over {{-3, 0, 3, 4}}', 'flags': '--exact and --describe symbolic'}
    report.outside = ['codespan\'s rendering of a diagnostic, colours', 'structopt parsing of the command line', 'the decimal rendering itself (C08)', 'the --describe footer', 'unit NAMES (each unit prints through its own format closure; the reference composes those)']
    report.assumptions = ['stdout collects pieces in order', 'parse/query replaced by a prepared result iterator: what the library computes is the subject of the other properties']
    report.models_used = ['fmt', 'coll', 'core', 'num', 'strings']
    report.required_witnesses = ['exact-integer', 'exact-fraction', 'decimal-12-12', 'blank-iff-numerator', 'plural-single-numerator', 'denominator-separator', 'error-does-not-stop-output', 'superscript-power']
    js = []
    for i, us in enumerate(UNITSETS + (UNITSETS_MORE if tier != 'quick' else [])):
        js.append({'name': f'ok-{i}', 'shape': ['ok'], 'units': [us]})
    js.append({'name': 'err-ok', 'shape': ['err', 'ok'], 'units': [None, ['Meter']]})
    js.append({'name': 'ok-err-ok', 'shape': ['ok', 'err', 'ok'], 'units': [['Second'], None, ['Meter', 'Second']]})
    js.append({'name': 'ok-ok', 'shape': ['ok', 'ok'], 'units': [[], ['units::time::DECADE']]})
    js.append({'name': 'err', 'shape': ['err'], 'units': [None]})
    return js

def run_job(job, res, prefixes, budget, deadline):
    I = harness.interp_for('dev+bin', {'range_bound': 64})
    install(I)
    MAIN = [b for b in I.bodies.get('main', []) if b.kind == 'fn'][0]
    def entry(I):
        exact = I.branch(z3.Bool('exact')); describe = I.branch(z3.Bool('describe'))
        results = []; spec = []
        for i, (kind, us) in enumerate(zip(job['shape'], job['units'])):
            if kind == 'err':
                a = 1 + i; b = 3 + i
                results.append(err(VStruct('error::Error', [rt.span(a, b), VEnum('error::ErrorKind', 'DivideByZero', [])])))
                spec.append(('err', a, b, 'error:DivideByZero'))
                continue
            n = z3.Int(f'n{i}'); d = z3.Int(f'd{i}')
            one = I.branch(z3.Bool(f'isone{i}'))
            if one: I.assume(z3.And(n == 1, d == 1))
            else: I.assume(z3.And(d >= 1, n != d))
            ents = []
            for j, u in enumerate(us):
                p = z3.Int(f'p{i}_{j}'); f = z3.Int(f'f{i}_{j}')
                I.assume(z3.And(z3.Or([p == v for v in ((-1, 2) if len(job['shape']) > 1 else (-12, -2, -1, 1, 2, 3, 12) if len(us) < 3 else (-2, -1, 1, 12))]), z3.Or(f == -3, f == 0, f == 3, f == 4) if j == 0 and len(job['shape']) == 1 else f == 0))
                ents.append((ul.resolve(I, u), p, f))
            val = VStruct('rational::Rational', [VRat(mnum.rdiv(mnum.rz(n), mnum.rz(d)), nd=(n, d))])
            results.append(ok(VStruct('numeric::Numeric', [val, rt.compound(I, ents)])))
            spec.append(('ok', n, d, one, ents))
        out = mfmt.new_formatter()
        I.path_state['cli'] = {'exact': exact, 'describe': describe, 'results': results, 'out': out, 'spec': spec}
        return I.run_body(MAIN, [])
    def on_path(I, out, res):
        kind, r = out
        c = I.path_state.get('cli')
        if c is None: return
        def cand(role, detail, m=None):
            if m is None:
                rr, m = I.model_for(None)
                if m is None: return
            items = []
            for s in c['spec']:
                if s[0] == 'err': items.append({'err': True}); continue
                _, n, d, one, ents = s
                items.append({'n': rt.mval(m, n), 'd': rt.mval(m, d), 'unit': ul.entries_json(I, ul.conc_entries(m, ents)), 'names': ul.names_list(ul.conc_entries(m, ents))})
            res['candidates'].append({'role': role, 'case': {'op': 'cli', 'exact': bool(c['exact']), 'items': items}, 'detail': detail})
        res['obligations'] += 1
        if kind == 'panic': cand('cli-panics', str(r)); return
        if kind != 'ok': return
        if r.variant != 'Ok': cand('main-fails', repr(r)[:200]); return
        pieces = list(c['out'].out)
        # split the output per result: every Ok ends with a newline piece, every Err is one diag piece
        pos = 0; conds = []; ok_all = True
        for s in c['spec']:
            if s[0] == 'err':
                if pos >= len(pieces) or pieces[pos][0] != 'diag' or pieces[pos][1] != s[3] or pieces[pos][2] != [(s[1], s[2], s[3])]:
                    cand('diagnostic-wrong-or-missing', f'pieces from {pos}: {pieces[pos:pos + 2]}'); return
                pos += 1; continue
            _, n, d, one, ents = s
            want, wconds = reference_line(I, c['exact'], n, d, one, ents)
            got = []
            while pos < len(pieces):
                got.append(pieces[pos]); pos += 1
                if got[-1] == ('str', '\n') or (got[-1][0] == 'ch' and got[-1][1] == 10): break
            eq = pieces_equal(I, flatten(got, I), flatten(want))
            if eq is False:
                cand('output-differs', f'printed {show(got)} expected {show(want)} :: {flatten(got, I)} vs {flatten(want)}'); return
            conds.append(eq)
        if pos != len(pieces): cand('extra-output', f'{show(pieces[pos:])}'); return
        res['discharged'] += 1
        bad = zor(*[znot(e) for e in conds if not (is_conc(e) and e)])
        st_ = res.obligation(I, bad, 'printed numbers equal the library values', lambda m: cand('output-differs', 'symbolic pieces differ', m))
        if st_ == 'unsat':
            for s in c['spec']:
                if s[0] == 'err':
                    if len(c['spec']) > 1: res.witness('error-does-not-stop-output')
                    continue
                _, n, d, one, ents = s
                if c['exact']: res.witness('exact-fraction'); res.witness('exact-integer')
                else: res.witness('decimal-12-12')
                res.witness('blank-iff-numerator')
                if len(ents) >= 1: res.witness('plural-single-numerator'); res.witness('superscript-power')
                if len(ents) >= 2: res.witness('denominator-separator')
            if len(res['samples']) < 4 and len(c['spec']) and c['spec'][0][0] == 'ok' and c['spec'][0][4]:
                rr, m = I.model_for(None)
                if m is not None: res['samples'].append({'exact': bool(c['exact']), 'printed': show(pieces, m)})
    harness.explore(I, res, entry, on_path, prefixes, budget, deadline)

SUP = '⁰¹²³⁴⁵⁶⁷⁸⁹'
def reference_line(I, exact, n, d, one, ents):
    """reference pieces of one Ok line; the powers are concretised (forks) because the layout depends on their signs"""
    want = []
    if exact:
        if I.branch(d == 1): want.append(('int', n, 'BigInt'))
        else: want += [('int', n, 'BigInt'), ('str', '/'), ('int', d, 'BigInt')]
    else: want.append(('decimal', (n, d), 12, 12, True))
    ce = [(u, I.concretize(p, what='power'), I.concretize(f, what='prefix')) for u, p, f in ents]
    # the crate keeps units in its own key order; the reference lists them in that order too (order is not part of the property)
    order = [rt.unit_name(I, e[0]) for e in rt.compound(I, [(u, 1, 0) for u, _, _ in ce]).items[0].entries]
    ce.sort(key=lambda e: order.index(e[0]))
    num = [e for e in ce if e[1] > 0]; den = [e for e in ce if e[1] < 0]
    if num: want.append(('str', ' '))
    plural = (not one) and len(num) == 1
    def unit_pieces(u, p, f, pl):
        out = [('str', unit_render1(I, u, f, pl))]
        ap = abs(p)
        if ap != 1: out.append(('str', ''.join(SUP[int(ch)] for ch in str(ap))))
        return out
    for i, (u, p, f) in enumerate(num):
        want += unit_pieces(u, p, f, plural and i == 0)
        if i + 1 < len(num): want.append(('str', '⋅'))
    if den:
        want.append(('str', '/'))
        for i, (u, p, f) in enumerate(den):
            want += unit_pieces(u, p, f, False)
            if i + 1 < len(den): want.append(('str', '⋅'))
    want.append(('str', '\n'))
    return want, []

_render = {}
def unit_render1(I, u, f, plural):
    """prefix + name of ONE unit with power one, as the library's unit Display prints it (run from MIR once per unit,
    prefix and plural flag, outside the path): the reference composes these; how a prefix is spelled is not part of C19"""
    key = (u, f, plural, id(I.bodies))
    if key not in _render:
        fo = mfmt.new_formatter()
        uv = rt.unit_val(I, u)
        d = VStruct('unit::Display', [VRef(Cell(uv), []), VRef(Cell(rt.state(1, f)), []), VBool(plural), VInt(1, 'i32')])
        I.call("<unit::Display<'_> as std::fmt::Display>::fmt", [VRef(Cell(d), []), VRef(Cell(fo), [])])
        _render[key] = show(fo.out)
    return _render[key]

def flatten(ps, I=None):
    out = []
    for p in ps:
        if I is not None and p[0] == 'int' and not is_conc(p[1]) and p[2] != 'BigInt': p = ('int', I.concretize(p[1], what='small printed integer'), p[2])
        if p[0] == 'str':
            for ch in p[1]: out.append(('ch', ord(ch)))
        elif p[0] == 'int' and is_conc(p[1]):
            for ch in str(p[1]): out.append(('ch', ord(ch)))
        else: out.append(p)
    return out
def pieces_equal(I, got, want):
    if len(got) != len(want): return False
    conds = []
    for g, w in zip(got, want):
        if g[0] != w[0]: return False
        if g[0] == 'ch':
            if is_conc(g[1]) and is_conc(w[1]):
                if g[1] != w[1]: return False
            else: conds.append(g[1] == w[1])
        elif g[0] == 'int': conds.append(mnum.iz(g[1]) == mnum.iz(w[1]))
        elif g[0] == 'decimal':
            if (g[2], g[3], g[4]) != (w[2], w[3], w[4]): return False
            n, d = w[1]
            conds.append(mnum.rz(g[1].v) == mnum.rz(n) / mnum.rz(d))
        elif g != w: return False
    return zand(*conds) if conds else True
def show(ps, m=None):
    s = ''
    for p in ps:
        if p[0] == 'str': s += p[1]
        elif p[0] == 'ch': s += chr(p[1]) if is_conc(p[1]) else '?'
        elif p[0] == 'int': s += str(p[1]) if is_conc(p[1]) else (str(rt.mval(m, p[1])) if m is not None else '#')
        elif p[0] == 'decimal': s += '<decimal>'
        elif p[0] == 'diag': s += f'<diagnostic {p[1]}>'
    return s

# ---------------------------------------------------------------- replay: run the real binary
def confirm(c, outs):
    import subprocess, os, replay_client, mirfront
    case = c['case']
    env = dict(os.environ); env['CARGO_NET_OFFLINE'] = 'true'; env.pop('RUSTFLAGS', None)
    tdir = os.path.join(harness.CACHE_DIR, 'bin-target')
    r = subprocess.run(['cargo', 'build', '--offline', '--quiet', '--bin', 'any', '--manifest-path', mirfront.REPO + '/Cargo.toml', '--target-dir', tdir], env=env, stdout=subprocess.PIPE, stderr=subprocess.PIPE)
    if r.returncode != 0: return False, 'binary does not build: ' + r.stderr.decode(errors='replace')[-300:]
    exe = os.path.join(tdir, 'debug', 'any')
    parts = []; expect = []
    for it in case['items']:
        if it.get('err'): parts.append('1/0'); expect.append(None); continue
        q = Fraction(it['n'], it['d'])
        text = ul.spell_compound([tuple(e) for e in it['names']])
        if text is None: return False, 'unit has no fixed spelling for a query'
        parts.append(f'({q.numerator}/{q.denominator}) {text}'.strip())
        expect.append((q, [tuple(e) for e in it['names']]))
    env2 = dict(os.environ); env2.update({'XDG_DATA_HOME': os.path.join(harness.CACHE_DIR, 'xdg-cli'), 'HOME': os.path.join(harness.CACHE_DIR, 'home'), 'NO_COLOR': '1'})
    # several results: one query of parenthesised expressions, `(1/0) ((3/2) m)`; a failing one prints a diagnostic (stderr), the
    # others one line each on stdout, in order
    def inner(p, e):
        if e is None: return '(1/0)'
        q, names = e; u = ul.spell_compound(names)
        return f'({q.numerator}/{q.denominator} * 1 {u})' if u else f'({q.numerator}/{q.denominator})'
    text = parts[0] if len(parts) == 1 else ' '.join(inner(p, e) for p, e in zip(parts, expect))
    args = [exe] + (['--exact'] if case['exact'] else []) + [text]
    o = subprocess.run(args, env=env2, stdout=subprocess.PIPE, stderr=subprocess.PIPE, timeout=120)
    # diagnostics (codespan: `error: ..`, ` ┌─ `, ` │ `) are not result lines
    lines = [l for l in o.stdout.decode(errors='replace').split('\n') if l.strip() and '│' not in l and '┌' not in l and not l.startswith(('error', 'warning', ' '))]
    values = [(p if len(parts) == 1 else inner(p, e), e) for p, e in zip(parts, expect) if e is not None]
    if len(values) == 0: return False, 'error case'
    if len(lines) != len(values): return True, f'`any {text!r}` printed {len(lines)} result line(s) {lines} for {len(values)} value(s) (and {len(parts) - len(values)} failing expression(s))'
    for line, (part, (q, names)) in zip(lines, values):
        bad, why = check_line(case, line, part, q, names)
        if bad: return True, why
    return False, 'binary output agrees'

def check_line(case, line, part, q, names):
    import replay_client
    if True:
        # reference text, composed from the library's own unit suffixes (query op) and the documented layout
        num = (f'{q.numerator}/{q.denominator}' if q.denominator != 1 else str(q.numerator)) if case['exact'] else None
        lib = replay_client.run_cases([{'op': 'query', 'text': part}], profiles=['dev'])[0]['dev']
        if case['exact'] and not line.startswith(num): return True, f'`any --exact {part!r}` printed {line!r}, the value is {num}'
        rest = line[len(num):] if case['exact'] else line[re.match(r'^-?[\d.…e-]+', line).end():]
        units_num = [e for e in names if e[1] > 0]; units_den = [e for e in names if e[1] < 0]
        if bool(units_num) != rest.startswith(' '): return True, f'printed {line!r}: blank before the unit {"missing" if units_num else "although there is no numerator"}'
        if len(units_den) >= 2 and rest.count('⋅') < len(units_den) - 1 + max(0, len(units_num) - 1): return True, f'printed {line!r}: separator between units missing'
        okr = (lib.get('ok') or [{}])[0].get('ok')
        if okr:
            want_unit_singular = okr['unit_text']
            if q == 1 and rest.strip() != want_unit_singular: return True, f'printed unit {rest.strip()!r}, library displays {want_unit_singular!r}'
            if q != 1 and len(units_num) == 1 and rest.strip() == want_unit_singular:
                # a unit with a distinct plural must be pluralised
                pl = replay_client.run_cases([{'op': 'unit_display', 'unit': okr['unit']}], profiles=['dev'])[0]['dev'].get('ok', {})
                if pl.get('plural') != pl.get('text'): return True, f'printed {line!r}: unit not pluralised although the value is not one (plural form {pl.get("plural")!r})'
            if q != 1 and len(units_num) != 1 and rest.strip() != want_unit_singular: return True, f'printed unit {rest.strip()!r}, library displays {want_unit_singular!r}'
        return False, 'binary output agrees'

def known_match(k, c): return True

if __name__ == '__main__':
    sys.exit(harness.main(sys.modules[__name__]))
