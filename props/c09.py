"""C09  Temperature scales convert by their defining affine formulas.

Compound::factor with the real temperature statics (Offset conversion for Celsius, the Methods closures for Fahrenheit)
executed from MIR on an unbounded symbolic magnitude:
 (a) all ordered pairs of {K, degC, degF} alone with power one (SI prefixes symbolic over {-3,0,3} on both sides):
         kelvin(result, target) == kelvin(x, source),   kelvin(v, u, f) = v * 10^f * size(u) + zero(u)
     with size/zero from spec/units.py (K = C + 273.15, C = (F - 32) * 5/9);
 (b) every chain of up to 4 conversions among the three scales ends where the direct conversion does, and there-and-back
     is the identity (the chains are executed, not inferred);
 (c) an offset scale anywhere but alone with power one (power in -3..3 other than 1, or multiplied with one or two other
     units with symbolic powers): the conversion is refused, or is purely multiplicative with the degree as an interval
         result == x * F(source)/F(target)   (size(degC) = 1, size(degF) = 5/9, no zero point).
"""
import z3, sys, itertools, random
from fractions import Fraction
import harness, rt
from mirsym import *
from models import num as mnum
from spec import units as U
from props import unitlib as ul
from props.c03 import run_factor

ID = 'C09'
PROFILES = ['dev']
REPLAY_PROFILES = ['dev', 'release']
TIME_LIMIT = {'quick': 600, 'thorough': 1800}
SCALES = ['Kelvin', 'temperature::CELSIUS', 'temperature::FAHRENHEIT']
COMPANIONS = ['Meter', 'Second', 'units::WATT', 'length::FOOT', 'KiloGram']
# a differently scaled unit of the same dimension (the companion is converted while the scale stays / changes)
ALT = {'Meter': 'length::FOOT', 'Second': 'units::time::MINUTE', 'units::WATT': 'units::WATT', 'length::FOOT': 'Meter', 'KiloGram': 'mass::POUND'}

def size_zero(u):
    if u == 'Kelvin': return Fraction(1), Fraction(0)
    return U.scale_of(u), U.OFFSETS[U.key(u)]

def jobs(tier, seed, report):
    report.bounds = {'magnitude': 'unbounded rational', 'pairs': 'all 9 ordered pairs incl. identity, prefixes {-3,0,3} symbolic on both sides',
                     'chains': 'all sequences of length <= 4 over the three scales', 'powers': '-3..3 of a scale', 'compounds': 'scale (power symbolic, also power one) with one or two companions from ' + str(COMPANIONS) + ' (powers symbolic -2..2), target = same shape with another or the SAME scale, the companion kept or replaced by a differently scaled unit of its dimension (m/ft, s/min, kg/lb)'}
    report.outside = ['companions outside the listed five', 'addition/subtraction of temperatures (the property speaks about conversions)']
    report.assumptions = ['BigRational exact (SMT Real)', 'spec: K = C + 273.15, C = (F - 32) * 5/9']
    report.models_used = ['num', 'coll', 'core']
    report.required_witnesses = ['pair-affine', 'chain', 'power-refused-or-interval', 'compound-refused-or-interval']
    js = [{'name': f'pair-{a}-{b}', 'kind': 'pair', 'a': a, 'b': b} for a in range(3) for b in range(3)]
    seqs = [s for n in (2, 3, 4) for s in itertools.product(range(3), repeat=n) if all(s[i] != s[i + 1] for i in range(n - 1))]
    for i in range(0, len(seqs), 6): js.append({'name': f'chain-{i}', 'kind': 'chain', 'seqs': seqs[i:i + 6]})
    for a in range(3):
        for b in range(3):
            if a == b == 0: continue
            js.append({'name': f'power-{a}-{b}', 'kind': 'power', 'a': a, 'b': b})
            for c in COMPANIONS: js.append({'name': f'comp-{a}-{b}-{c}', 'kind': 'compound', 'a': a, 'b': b, 'comp': [c]})
    for a in range(3):
        for b in range(3):
            if a == b == 0: continue
            for c in COMPANIONS:
                if ALT[c] != c: js.append({'name': f'compalt-{a}-{b}-{c}', 'kind': 'compound', 'a': a, 'b': b, 'comp': [c], 'alt': True})
    pairs2 = list(itertools.combinations(COMPANIONS, 2))
    rnd = random.Random(seed); rnd.shuffle(pairs2)
    for cc in pairs2[:3 if tier == 'quick' else 10]:
        for a, b in ((1, 0), (2, 0), (1, 2), (0, 1)): js.append({'name': f'comp2-{a}-{b}-{cc}', 'kind': 'compound', 'a': a, 'b': b, 'comp': list(cc)})
    return js

def kelvin(v, u, f):
    s, z = size_zero(u)
    return v * mnum.rz(Fraction(10) ** f * s) + mnum.rz(z)

def spell_case(m, x, src, tgt):
    I = harness.interp_for('dev')
    s = ul.conc_entries(m, src); t = ul.conc_entries(m, tgt); xv = rt.mval(m, x)
    c = ul.factor_case(I, t, s, xv)
    c.update({'src': ul.names_list(s), 'tgt': ul.names_list(t), 'x': str(xv), 'text': f'{rt.frac_str(xv)} {ul.spell_compound(s)} to {ul.spell_compound(t)}'})
    return c

def run_job(job, res, prefixes, budget, deadline):
    I = harness.interp_for('dev', {'pow_bound': 80})
    S = [ul.resolve(I, s) for s in SCALES]
    k = job['kind']
    if k == 'pair':
        a, b = S[job['a']], S[job['b']]
        def entry(I):
            x = z3.Real('x'); fa = I.concretize(z3.Int('fa')) if False else None
            fa = z3.Int('fa'); fb = z3.Int('fb')
            I.assume(z3.And(z3.Or(fa == -3, fa == 0, fa == 3), z3.Or(fb == -3, fb == 0, fb == 3)))
            src = [(a, 1, fa)]; tgt = [(b, 1, fb)]
            I.path_state['in'] = (x, src, tgt)
            return run_factor(I, tgt, src, x)
        def on_path(I, out, res):
            kind, r = out
            x, src, tgt = I.path_state['in']
            if kind == 'panic':
                rr, m = I.model_for(None)
                if m is not None: res['candidates'].append({'role': 'temperature-panics', 'case': spell_case(m, x, src, tgt), 'detail': str(r)})
                return
            if kind != 'ok': return
            r, cell = r
            if r.variant != 'Ok' or r.items[0].v is not True:
                rr, m = I.model_for(None); res['obligations'] += 1
                res['candidates'].append({'role': 'temperature-refused', 'case': spell_case(m, x, src, tgt), 'detail': repr(r)}); return
            val = mnum.rz(mnum.rat_arg(I, cell))
            fa = I.concretize(src[0][2]); fb = I.concretize(tgt[0][2])
            bad = kelvin(val, b, fb) != kelvin(x, a, fa)
            def on_sat(m):
                res['candidates'].append({'role': 'temperature-formula', 'case': spell_case(m, x, src, tgt), 'detail': f'got {rt.mval(m, val)}'})
            if res.obligation(I, bad, 'kelvin preserved', on_sat) == 'unsat': res.witness('pair-affine')
            if len(res['samples']) < 2: res['samples'].append({'src': a, 'tgt': b, 'prefixes': [fa, fb], 'result': str(z3.simplify(val)), 'obligation': 'kelvin(result) == kelvin(x)'})
        harness.explore(I, res, entry, on_path, None, 10000, deadline)
    elif k == 'chain':
        for seq in job['seqs']:
            def entry(I):
                x = z3.Real('x'); v = x
                for i in range(len(seq) - 1):
                    r, cell = run_factor(I, [(S[seq[i + 1]], 1, 0)], [(S[seq[i]], 1, 0)], v)
                    if r.variant != 'Ok' or r.items[0].v is not True: return ('refused', i)
                    v = mnum.rat_arg(I, cell)
                rd, celld = run_factor(I, [(S[seq[-1]], 1, 0)], [(S[seq[0]], 1, 0)], x)
                rb, cellb = run_factor(I, [(S[seq[0]], 1, 0)], [(S[seq[-1]], 1, 0)], v)
                return ('ok', x, v, mnum.rat_arg(I, celld), mnum.rat_arg(I, cellb), rd, rb)
            def on_path(I, out, res):
                kind, r = out
                if kind != 'ok': return
                names = [ul.spell(S[i]) for i in seq]
                if r[0] == 'refused' or r[5].variant != 'Ok' or r[6].variant != 'Ok':
                    res['obligations'] += 1
                    res['candidates'].append({'role': 'chain-refused', 'case': {'op': 'query', 'text': '1 ' + ' to '.join(names), 'chain': names, 'x': '1'}, 'detail': str(r[:2])}); return
                _, x, v, d, back = r[:5]
                def on_sat(m):
                    xv = rt.mval(m, x)
                    res['candidates'].append({'role': 'chain-differs', 'case': {'op': 'query', 'text': rt.frac_str(xv) + ' ' + ' to '.join(names), 'chain': names, 'x': str(xv)},
                                              'detail': f'chain={rt.mval(m, v)} direct={rt.mval(m, d)} back={rt.mval(m, back)}'})
                if res.obligation(I, z3.Or(mnum.rz(v) != mnum.rz(d), mnum.rz(back) != x), 'chain == direct, and back == x', on_sat) == 'unsat': res.witness('chain')
            harness.explore(I, res, entry, on_path, None, 10000, deadline)
    else:
        a, b = S[job['a']], S[job['b']]
        comp = [ul.resolve(I, c) for c in job.get('comp', [])]
        def entry(I):
            x = z3.Real('x'); p = z3.Int('p')
            I.assume(z3.And(p >= -3, p <= 3, p != 0))
            if not comp: I.assume(p != 1)
            ce = ul.sym_entries(I, comp, 'c', -2, 2)
            src = [(a, p, 0)] + ce
            tgt = [(b, p, 0)] + ([(ul.resolve(I, ALT[U.key(u) if U.key(u) in ALT else u]) if False else ul.resolve(I, ALT[job['comp'][i]]), q, f) for i, (u, q, f) in enumerate(ce)] if job.get('alt') else ce)
            I.path_state['in'] = (x, src, tgt)
            return run_factor(I, tgt, src, x)
        def on_path(I, out, res):
            kind, r = out
            x, src, tgt = I.path_state['in']
            if kind == 'panic':
                rr, m = I.model_for(None)
                if m is not None: res['candidates'].append({'role': 'temperature-panics', 'case': spell_case(m, x, src, tgt), 'detail': str(r)})
                return
            if kind != 'ok': return
            r, cell = r
            tag = 'compound-refused-or-interval' if comp else 'power-refused-or-interval'
            res['obligations'] += 1
            if r.variant == 'Err': res['discharged'] += 1; res.witness(tag); return
            if r.items[0].v is not True:
                rr, m = I.model_for(None)
                res['candidates'].append({'role': 'commensurable-temperature-compound-refused-as-incommensurable', 'case': spell_case(m, x, src, tgt), 'detail': repr(r)}); return
            res['obligations'] -= 1
            val = mnum.rz(mnum.rat_arg(I, cell))
            ratio = ul.F_of(I, src, scale=lambda u: size_zero(u)[0] if u in S else ul.declared_scale(I, u)[1]) / ul.F_of(I, tgt, scale=lambda u: size_zero(u)[0] if u in S else ul.declared_scale(I, u)[1])
            def on_sat(m):
                res['candidates'].append({'role': 'zero-point-added-to-compound', 'case': spell_case(m, x, src, tgt), 'detail': f'got {rt.mval(m, val)}, interval conversion is {rt.mval(m, x * mnum.rz(ratio))}'})
            if res.obligation(I, val != x * mnum.rz(ratio), 'interval conversion', on_sat) == 'unsat': res.witness(tag)
        harness.explore(I, res, entry, on_path, None, 10000, deadline)

# ---------------------------------------------------------------- replay
def to_kelvin(v, u, f):
    s, z = size_zero(u); return v * Fraction(10) ** f * s + z
def confirm(c, outs):
    case = c['case']
    for prof, o in outs.items():
        if 'panic' in o: return True, f'{prof}: panic {o["panic"]}'
        if 'chain' in case:
            rs = o.get('ok')
            r = rs[0] if isinstance(rs, list) and rs else {'err': str(o)}
            if 'err' in r: return True, f'{prof}: chain refused: {r["err"]}'
            names = case['chain']; inv = {ul.spell(s): s for s in SCALES}
            x = Fraction(case['x'])
            want = (to_kelvin(x, inv[names[0]], 0) - size_zero(inv[names[-1]])[1]) / size_zero(inv[names[-1]])[0]
            got = rt.parse_frac(r['ok']['value'])
            if got != want: return True, f'{prof}: chain ends at {got}, direct conversion gives {want}'
            continue
        r = o.get('ok') or {}
        src = [tuple(e) for e in case['src']]; tgt = [tuple(e) for e in case['tgt']]
        alone = len(src) == 1 and src[0][1] == 1 and len(tgt) == 1 and tgt[0][1] == 1
        x = Fraction(case['x'])
        if alone:
            if r.get('refused') or not r.get('commensurable'): return True, f'{prof}: refused: {r}'
            want = (to_kelvin(x, src[0][0], src[0][2]) - size_zero(tgt[0][0])[1]) / (size_zero(tgt[0][0])[0] * Fraction(10) ** tgt[0][2])
            got = rt.parse_frac(r['value'])
            if got != want: return True, f'{prof}: {got} instead of {want}'
        else:
            if r.get('refused'): continue
            if not r.get('commensurable'): return True, f'{prof}: reported as incommensurable'
            want = x * U.si_factor(src) / U.si_factor(tgt)
            got = rt.parse_frac(r['value'])
            if got != want: return True, f'{prof}: {got}; as an interval it is {want} (the zero point was added to a compound/powered unit)'
    return False, 'real build agrees with the oracle'

def validate(tier, seed, report):
    from props import unitlib
    return unitlib.validate_kernels(seed, 80 if tier == 'quick' else 400, ops=('add', 'mul', 'div'))

def known_match(k, c): return True

if __name__ == '__main__':
    sys.exit(harness.main(sys.modules[__name__]))
