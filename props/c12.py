"""C12  Lexing and parsing are lossless over the input text.

(A) lexer, one inductive step.  Lexer::next (with peek/peek2/step, consume_number/word/whitespace/escaped_word,
    next_escape) is executed from MIR from an ARBITRARY lexer state: a string of <= N characters, each either a symbolic
    ASCII code point (0..127, classes split by solver feasibility) or one of a fixed list of multi-byte characters, the
    position after an arbitrary prefix character or at 0, escape flag symbolic.  On every path: `None` exactly at the
    end of input; otherwise the token is at least one byte long, the new position is old position + len, lies inside the
    input and on a character boundary.  The lexer only reads source[pos..] (checked: a symbolic prefix character never
    appears in a path condition), so by induction over suffixes every string of <= N characters is covered exactly once by
    non-empty tokens, from the first to the last byte.
(B) whole streams, N <= 3 (cross-check of the induction): lex to the end, then Parser::parse_root on the same text; the
    tree's leaves must be exactly the lexed tokens (kind, length) in order with contiguous spans from 0 to len.
(C) parser on token soups.  Parser + grammar run over the syntree builder model with the lexer replaced by a stub that
    yields <= K tokens whose KINDS are solver variables (all-SAT forking), constrained only by what the lexer can
    produce (no two adjacent blanks, brace mode, no adjacent word-like tokens, `*` never followed by `*`): parse_root
    returns a tree, every token was requested and forwarded to the builder exactly once, the leaves are those tokens in
    order with their lengths, spans contiguous.  Counterexamples are realised as text and replayed (lex + tree).
"""
import z3, sys, random, itertools
import harness, rt, qrun
from mirsym import *
from models import M as MODELS
from models.core import some, none, deref
from models.strings import StrS
from props import exprlib as el
import re

ID = 'C12'
PROFILES = ['dev', 'release']
REPLAY_PROFILES = ['dev', 'release']
TIME_LIMIT = {'quick': 900, 'thorough': 3000}
BUDGET = 150
FIRST_BUDGET = 40

MULTI = [' ', ' ', '°', 'μ', 'é', '€', '😀', 'Ω']
KINDS = ['WHITESPACE', 'STAR', 'STARSTAR', 'SLASH', 'PLUS', 'DASH', 'CARET', 'COMMA', 'OPEN_PAREN', 'CLOSE_PAREN', 'OPEN_BRACE', 'CLOSE_BRACE', 'TO', 'WORD', 'NUMBER', 'PERCENTAGE', 'ERROR']

def jobs(tier, seed, report):
    rnd = random.Random(seed)
    N = 5 if tier == 'quick' else 6
    K = 4 if tier == 'quick' else 5
    report.bounds = {'lexer_step': f'strings of <= {N} characters after an optional arbitrary prefix character; every position symbolic ASCII, or one of {len(MULTI)} multi-byte characters at one position (thorough: also at seeded pairs of positions); escape flag symbolic',
                     'whole_streams': 'all strings of <= 3 characters (symbolic ASCII; one multi-byte position in a seeded sample)', 'parser_token_soup': f'<= {K} tokens, each kind symbolic over the {len(KINDS)} kinds the lexer emits', 'profiles': 'dev and release MIR (release: ASCII lexer step and soups of <= 3)'}
    report.outside = ['longer strings (the lexer step is an induction over suffixes, so only the length of a single token is bounded)', 'token soups longer than the bound', 'multi-byte characters other than the listed ones']
    report.assumptions = ['syntree builder/tree model (differentially tested)', 'str/char models: get(pos..), chars(), is_whitespace, len_utf8', 'token soups are restricted to sequences the lexer can emit']
    report.models_used = ['strings', 'core', 'coll', 'tree']
    report.required_witnesses = ['step-token', 'step-end', 'step-escape-mode', 'step-multibyte', 'stream-lossless', 'soup-lossless', 'soup-error-recovery']
    js = []
    for prof in PROFILES:
        for n in range(0, N + 1):
            for pre in (0, 1):
                if prof == 'release' and (n > 4 or pre): continue
                js.append({'name': f'{prof}-step-n{n}-pre{pre}', 'kind': 'step', 'profile': prof, 'widths': [None] * n, 'prefix': pre})
    for n in range(1, N + 1):
        combos = [(i, m) for i in range(n) for m in MULTI]
        rnd.shuffle(combos)
        for (i, m) in combos[:(12 if tier == 'quick' else 40)] if n > 2 else combos:
            w = [None] * n; w[i] = m
            js.append({'name': f'dev-step-n{n}-mb{i}-{ord(m):x}', 'kind': 'step', 'profile': 'dev', 'widths': w, 'prefix': 0})
        if tier != 'quick' and n >= 2:
            for _ in range(20):
                w = [None] * n
                for i in rnd.sample(range(n), 2): w[i] = rnd.choice(MULTI)
                js.append({'name': f'dev-step-n{n}-mb2-{rnd.randrange(10**6)}', 'kind': 'step', 'profile': 'dev', 'widths': w, 'prefix': rnd.choice([0, 1])})
    for n in range(0, 4):
        js.append({'name': f'dev-stream-n{n}', 'kind': 'stream', 'profile': 'dev', 'widths': [None] * n})
    for n in range(1, 4):
        combos = [(i, m) for i in range(n) for m in MULTI]; rnd.shuffle(combos)
        for (i, m) in combos[:4 if tier == 'quick' else 16]:
            w = [None] * n; w[i] = m
            js.append({'name': f'dev-stream-n{n}-mb{i}-{ord(m):x}', 'kind': 'stream', 'profile': 'dev', 'widths': w})
    for prof in PROFILES:
        for k in range(0, K + 1):
            if prof == 'release' and k > 3: continue
            js.append({'name': f'{prof}-soup-k{k}', 'kind': 'soup', 'profile': prof, 'k': k})
    return js

def sym_string(I, widths, tag='c'):
    chars = []
    for i, w in enumerate(widths):
        if w is None:
            c = z3.Int(f'{tag}{i}'); I.assume(z3.And(c >= 0, c <= 127)); chars.append((VInt(c, 'char'), 1))
        else: chars.append((VInt(ord(w), 'char'), len(w.encode())))
    return chars

def run_job(job, res, prefixes, budget, deadline):
    I = harness.interp_for(job['profile'])
    install_stub(I)
    {'step': step_job, 'stream': stream_job, 'soup': soup_job}[job['kind']](I, job, res, prefixes, budget, deadline)

def text_of_model(m, s):
    return ''.join(chr(rt.mval(m, c.v)) if not is_conc(c.v) else chr(c.v) for c, _ in s.chars)

# ---------------------------------------------------------------- (A) lexer step
def step_job(I, job, res, prefixes, budget, deadline):
    NEXT = "<Lexer<'_> as Iterator>::next"
    def entry(I):
        pre = sym_string(I, [None] * job['prefix'], 'p')
        if pre:          # the prefix may be any char at all: leave it unconstrained above ASCII too (width 1 model: ASCII)
            pass
        body = sym_string(I, job['widths'])
        s = StrS(pre + body)
        esc = z3.Bool('escape')
        e = I.branch(esc)
        p0 = sum(w for _, w in pre)
        lx = Cell(VStruct('lexer::Lexer', [VRef(Cell(s), []), VInt(p0, 'usize'), VBool(e)]))
        I.path_state['st'] = (s, p0, e, lx, [c.v for c, _ in pre])
        return I.call(NEXT, [VRef(lx, [])])
    def on_path(I, out, res):
        kind, t = out
        st = I.path_state.get('st')
        if st is None: return
        s, p0, e, lx, prevars = st
        total = s.blen()
        def cand(role, detail):
            rr, m = I.model_for(None)
            if m is None: return
            res['candidates'].append({'role': role, 'case': {'op': 'lex_from', 'text': text_of_model(m, s), 'pos': p0, 'escape': bool(e)}, 'detail': f'{job["profile"]}: {detail}'})
        res['obligations'] += 1
        if kind == 'panic': cand('lexer-panics', str(t)); return
        if kind != 'ok': return
        # the lexer must not have looked at the prefix: no path condition mentions it
        for pv in prevars:
            if any(z3.eq(pv, v) for c in I.pc[len(prevars):] for v in z3util_vars(c)):
                cand('reads-before-position', 'a path condition depends on the character before pos'); return
        if t.variant == 'None':
            if p0 != total: cand('stops-before-end', f'None at {p0} of {total} bytes'); return
            res['discharged'] += 1; res.witness('step-end'); return
        tok = t.items[0]
        ln = tok.items[0].v; newpos = lx.val.items[1].v
        if not is_conc(ln) or not is_conc(newpos): cand('symbolic-length', 'token length depends on a symbolic value'); return
        bad = None
        if p0 >= total: bad = 'token produced at the end of input'
        elif ln < 1: bad = f'empty token ({tok.items[1].variant})'
        elif newpos != p0 + ln: bad = f'position advanced by {newpos - p0} but token length is {ln}'
        elif newpos > total: bad = f'token of {ln} bytes at {p0} runs past the end ({total})'
        elif s.at_byte(newpos) is None: bad = f'token ends inside a character (byte {newpos})'
        if bad: cand('lossy-token', bad); return
        res['discharged'] += 1
        res.witness('step-token')
        if e: res.witness('step-escape-mode')
        if any(w is not None for w in job['widths']): res.witness('step-multibyte')
        if len(res['samples']) < 3 and ln >= 2:
            rr, m = I.model_for(None)
            if m is not None: res['samples'].append({'text': text_of_model(m, s), 'pos': p0, 'escape': bool(e), 'token': [tok.items[1].variant, ln], 'new_pos': newpos, 'checked': 'len>=1, pos+len, in range, char boundary'})
    harness.explore(I, res, entry, on_path, prefixes, budget, deadline)

def z3util_vars(e):
    out = []; seen = set(); st = [e]
    while st:
        x = st.pop()
        if x.get_id() in seen: continue
        seen.add(x.get_id())
        if z3.is_const(x) and x.decl().kind() == z3.Z3_OP_UNINTERPRETED: out.append(x)
        st.extend(x.children())
    return out

# ---------------------------------------------------------------- (B) whole streams through lexer and parser
def leaves_of(t):
    out = []
    def walk(i):
        while i is not None:
            l = t.tree[i]
            if l.first is None:
                if l.start != l.end: out.append((l.data.variant, l.start, l.end))     # zero-width childless nodes (empty FN_ARGUMENTS) are not tokens
            else: walk(l.first)
            i = l.next
    walk(t.first)
    return out

def stream_job(I, job, res, prefixes, budget, deadline):
    def entry(I):
        s = StrS(sym_string(I, job['widths']))
        I.path_state['s'] = s
        toks, ended = rt.lex_all(I, s, limit=s.blen() + 2)
        I.path_state['toks'] = (toks, ended)
        return rt.parse_root(I, s)
    def on_path(I, out, res):
        kind, r = out
        s = I.path_state.get('s')
        if s is None: return
        def cand(role, detail):
            rr, m = I.model_for(None)
            if m is None: return
            res['candidates'].append({'role': role, 'case': {'op': 'tree', 'text': text_of_model(m, s)}, 'detail': detail})
        res['obligations'] += 1
        if kind == 'panic': cand('panic', str(r)); return
        if kind != 'ok': return
        toks, ended = I.path_state['toks']
        total = s.blen()
        if not ended: cand('lexer-does-not-terminate', f'{len(toks)} tokens and not at the end'); return
        if any(l < 1 for _, l in toks) or sum(l for _, l in toks) != total: cand('tokens-do-not-cover', f'{toks} over {total} bytes'); return
        if r.variant != 'Ok': cand('no-tree', 'parse_root returned Err'); return
        leaves = leaves_of(r.items[0].t)
        pos = 0; want = []
        for k, l in toks: want.append((k, pos, pos + l)); pos += l
        if leaves != want: cand('leaves-differ-from-tokens', f'leaves {leaves}, tokens {want}'); return
        res['discharged'] += 1; res.witness('stream-lossless')
    harness.explore(I, res, entry, on_path, prefixes, budget, deadline)

# ---------------------------------------------------------------- (C) parser on token soups
_stub = False
def install_stub(I):
    global _stub
    if _stub: return
    _stub = True
    def lexer_next_stub(I, m, a, dt):
        soup = I.path_state.get('soup')
        if soup is None: raise Fallthrough()
        i = soup['i']
        if i >= len(soup['kinds']):
            soup['ended'] += 1
            return none()
        kv = soup['kinds'][i]
        k = I.concretize(kv, limit=len(KINDS) + 1, what='token kind')
        soup['i'] = i + 1; soup['conc'].append(k)
        return some(VStruct('lexer::Token', [VInt(soup['lens'][i], 'usize'), VEnum('parser::Syntax', KINDS[k], [])]))
    MODELS.insert(0, (re.compile(r"^<(?:lexer::)?Lexer<'_> as Iterator>::next$"), lexer_next_stub))
    I.model_cache.clear()

def lexer_can_emit(I, kinds):
    """constraints on adjacent token kinds that hold for every output of the lexer"""
    ix = {k: i for i, k in enumerate(KINDS)}
    WS, STAR, SS, OB, CB, TO, WORD, ERR = ix['WHITESPACE'], ix['STAR'], ix['STARSTAR'], ix['OPEN_BRACE'], ix['CLOSE_BRACE'], ix['TO'], ix['WORD'], ix['ERROR']
    esc = False    # z3 Bool: inside braces before token i
    for i, k in enumerate(kinds):
        I.assume(z3.And(k >= 0, k < len(KINDS)))
        # in brace mode only blanks, `}` and single-character ERROR tokens occur (consume_escaped_word)
        I.assume(z3.Implies(esc, z3.Or(k == WS, k == CB, k == ERR)) if not is_conc(esc) else True)
        if i > 0:
            p = kinds[i - 1]
            I.assume(z3.Not(z3.And(p == WS, k == WS)))
            I.assume(z3.Implies(z3.Not(esc) if not is_conc(esc) else True, z3.And(
                z3.Not(z3.And(p == STAR, z3.Or(k == STAR, k == SS))),
                z3.Not(z3.And(z3.Or(p == WORD, p == TO), z3.Or(k == WORD, k == TO))),
                # a sign directly followed by a number is one NUMBER token unless the number brings its own sign
                )))
        esc = z3.If(k == OB, True, z3.If(k == CB, False, esc)) if not is_conc(esc) or True else esc
    return esc

def soup_job(I, job, res, prefixes, budget, deadline):
    K = job['k']
    lens = [1 + (i % 3) for i in range(K)]
    def entry(I):
        kinds = [z3.Int(f'k{i}') for i in range(K)]
        lexer_can_emit(I, kinds)
        s = StrS.from_text('x' * sum(lens))
        I.path_state['soup'] = {'i': 0, 'kinds': kinds, 'lens': lens, 'conc': [], 'ended': 0}
        return rt.parse_root(I, s)
    def on_path(I, out, res):
        kind, r = out
        soup = I.path_state.get('soup')
        if soup is None: return
        seq = [KINDS[k] for k in soup['conc']]
        def cand(role, detail):
            res['candidates'].append({'role': role, 'case': {'op': 'soup', 'kinds': seq, 'requested': soup['i'], 'k': K}, 'detail': f'{job["profile"]}: {detail}'})
        res['obligations'] += 1
        if kind == 'panic': cand('parser-panics', str(r)); return
        if kind != 'ok': return
        if r.variant != 'Ok': cand('no-tree', f'parse_root returned Err({getattr(r.items[0], "kind", r.items[0])})'); return
        if soup['i'] != K or soup['ended'] == 0: cand('tokens-not-consumed', f'{soup["i"]} of {K} tokens requested, end seen {soup["ended"]} times'); return
        leaves = leaves_of(r.items[0].t)
        pos = 0; want = []
        for k, l in zip(seq, lens): want.append((k, pos, pos + l)); pos += l
        if leaves != want: cand('leaves-differ-from-tokens', f'leaves {leaves}, tokens {want}'); return
        res['discharged'] += 1; res.witness('soup-lossless')
        roots = el.nodes_of_model(r.items[0].t)
        if any(n.kind == 'ERROR' for n in roots): res.witness('soup-error-recovery')
        if len(res['samples']) < 6 and K >= 3 and len(set(seq)) >= 3:
            res['samples'].append({'tokens': seq, 'lens': lens, 'leaves': leaves, 'root_nodes': [n.kind for n in roots if not n.token]})
    harness.explore(I, res, entry, on_path, prefixes, budget, deadline)

# ---------------------------------------------------------------- replay
LEX = {'WHITESPACE': [' '], 'STAR': ['*'], 'STARSTAR': ['**'], 'SLASH': ['/'], 'PLUS': ['+'], 'DASH': ['-'], 'CARET': ['^'], 'COMMA': [','], 'OPEN_PAREN': ['('], 'CLOSE_PAREN': [')'],
       'OPEN_BRACE': ['{'], 'CLOSE_BRACE': ['}'], 'TO': ['to'], 'WORD': ['w', 'km'], 'NUMBER': ['7', '.5', '+5'], 'PERCENTAGE': ['%'], 'ERROR': ['#', '$', '.']}
def realise(kinds):
    """a text that the real lexer splits into exactly these kinds, or None"""
    import replay_client
    cands = [[]]
    for k in kinds:
        cands = [c + [x] for c in cands for x in LEX[k]][:4000]
    cases = [{'op': 'lex', 'text': ''.join(c)} for c in cands]
    outs = replay_client.run_profile(cases, 'dev')
    for c, o in zip(cands, outs):
        got = [k for k, _ in (o.get('ok') or [])]
        if got == kinds: return ''.join(c)
    return None

def confirm(c, outs):
    case = c['case']
    import replay_client
    if case['op'] == 'soup':
        text = realise(case['kinds'])
        if text is None: return False, 'token sequence cannot be produced by the lexer (not a violation)'
        outs = replay_client.run_cases([{'op': 'tree', 'text': text}], profiles=REPLAY_PROFILES)[0]
        case['text'] = text
    text = case.get('text', '')
    for prof, o in outs.items():
        if 'panic' in o: return True, f'{prof}: panic {o["panic"]}'
    if case['op'] == 'lex_from':
        # the state (pos, escape) is realised as a fresh lexer on the suffix, inside a brace for escape mode
        suffix = text.encode()[case['pos']:].decode(errors='replace')
        t = ('{' if case['escape'] else '') + suffix
        lo = replay_client.run_cases([{'op': 'lex', 'text': t}], profiles=REPLAY_PROFILES)[0]
        for prof, o in lo.items():
            if 'panic' in o: return True, f'{prof}: panic {o["panic"]} on {t!r}'
            why = lossless_tokens(t, o.get('ok'), 0)
            if why: return True, f'{prof}: {why} on {t!r}'
        return False, 'real lexer is lossless on this input'
    lo = replay_client.run_cases([{'op': 'lex', 'text': text}], profiles=REPLAY_PROFILES)[0]
    for prof, o in lo.items():
        why = lossless_tokens(text, o.get('ok'), 0)
        if why: return True, f'{prof}: {why}'
        toks = o['ok']
        t = outs[prof]
        rows = t.get('ok')
        if rows is None: return True, f'{prof}: no tree: {t}'
        leaves = [(r[1], r[2], r[3]) for r in rows if r[4] or (r[2] == r[3] and False)]
        # leaves = rows without children: recompute from depth structure
        leaves = []
        for i, r in enumerate(rows):
            has_child = i + 1 < len(rows) and rows[i + 1][0] > r[0]
            if not has_child and r[2] != r[3]: leaves.append((r[1], r[2], r[3]))
        pos = 0; want = []
        for k, l in toks: want.append((k, pos, pos + l)); pos += l
        if leaves != want: return True, f'{prof}: tree leaves {leaves} differ from tokens {want}'
    return False, 'real build is lossless on this input'

def lossless_tokens(text, toks, start):
    if toks is None: return 'lexer output missing'
    b = text.encode(); pos = start
    for k, l in toks:
        if l < 1: return f'empty token {k} at {pos}'
        pos += l
        if pos > len(b): return f'token {k} runs past the end'
        try: b[:pos].decode()
        except UnicodeDecodeError: return f'token {k} ends inside a character at byte {pos}'
    if pos != len(b): return f'tokens cover {pos - start} of {len(b) - start} bytes'
    return None

def validate(tier, seed, report):
    from props import exprlib
    return exprlib.validate_pipeline(seed, 60 if tier == 'quick' else 300)

def known_match(k, c): return True

if __name__ == '__main__':
    sys.exit(harness.main(sys.modules[__name__]))
