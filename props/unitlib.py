"""Shared pieces of the unit checks (C02, C03, C04, C05, C09, C13): symbolic compounds and the reference semantics
SI_ref / dim_ref built from spec/units.py."""
import z3, random
from fractions import Fraction
import rt
from mirsym import *
from models import num as mnum
from spec import units as U

BASIS = ['Meter', 'Second', 'KiloGram', 'Ampere', 'Kelvin', 'units::NEWTON', 'energy::JOULE', 'units::WATT', 'units::VOLT', 'units::COULOMB',
         'units::PASCAL', 'volume::LITRE', 'units::time::MINUTE', 'length::FOOT']
OFFSET_UNITS = ['temperature::CELSIUS', 'temperature::FAHRENHEIT']

def vocabulary(I, offsets=False):
    """8 base units + every Derived static in the MIR (regenerated each run: a new unit is picked up)"""
    names = list(rt.BASE_UNITS) + rt.derived_statics(I)
    if not offsets: names = [n for n in names if U.key(n) not in U.OFFSETS]
    return names

def resolve(I, name):
    """name as used in BASIS -> name of the static in this MIR dump"""
    if name in rt.BASE_UNITS: return name
    for n in rt.derived_statics(I):
        if n == name or n.endswith('::' + name) or name.endswith('::' + n) or U.key(n) == U.key(name): return n
    raise Unsupported('unit static not found: ' + name)

def sym_entries(I, units, tag, pmin=-3, pmax=3, prefixes=None):
    """[(unit, power Int var, prefix)] with power in [pmin,pmax]\\{0}; prefix symbolic over `prefixes` or 0"""
    out = []
    for i, u in enumerate(units):
        p = z3.Int(f'{tag}p{i}')
        I.assume(z3.And(p >= pmin, p <= pmax, p != 0))
        if prefixes:
            f = z3.Int(f'{tag}f{i}')
            I.assume(z3.Or([f == v for v in prefixes]))
        else: f = 0
        out.append((u, p, f))
    return out

def dims_formula(entries):
    """{base: z3/py linear expression} of a compound [(unit, power, prefix)]"""
    out = {}
    for u, p, _ in entries:
        for b, k in U.dims_of(u).items():
            out[b] = out.get(b, 0) + k * p
    return out
def dims_equal(a, b):
    conds = []
    for base in U.BASE:
        x = a.get(base, 0); y = b.get(base, 0)
        conds.append(x == y)
    return zand(*conds)

def conc_entries(m, entries):
    return [(u, rt.mval(m, p), rt.mval(m, f)) for u, p, f in entries]

# ---- spelling a compound as query text (for replay) ----
def unit_words(I):
    """static name -> a query word that spells exactly that unit with no prefix (found by running the real unit parser
    on the candidate names of tools/gen/data.toml is C05's job; here a fixed table of unambiguous spellings)"""
    return SPELL
SPELL = {
    'KiloGram': 'kg', 'Candela': 'cd', 'Meter': 'm', 'Second': 's', 'Ampere': 'A', 'Kelvin': 'K', 'Mole': 'mol', 'Byte': 'B',
    'units::NEWTON': 'N', 'energy::JOULE': 'J', 'units::WATT': 'W', 'units::VOLT': 'V', 'units::COULOMB': 'C', 'units::PASCAL': 'Pa',
    'volume::LITRE': 'l', 'time::MINUTE': 'min', 'length::FOOT': 'ft', 'temperature::CELSIUS': '°C', 'temperature::FAHRENHEIT': '°F',
    'units::FARAD': 'F', 'units::OHM': 'Ω', 'units::SIEMENS': 'S', 'units::WEBER': 'Wb', 'units::TESLA': 'T', 'units::HENRY': 'H',
    'units::LUMEN': 'lm', 'units::LUX': 'lx', 'units::BECQUEREL': 'Bq', 'units::GRAY': 'Gy', 'units::SIEVERT': 'Sv', 'units::KATAL': 'kat',
    'length::INCH': 'in', 'length::YARD': 'yd', 'length::MILE': 'mi', 'mass::POUND': 'lb', 'mass::OUNCE': 'oz', 'time::HOUR': 'hr', 'time::DAY': 'dy',
    'volume::GALLON': 'gal', 'area::ACRE': 'acre', 'area::HECTARE': 'ha', 'energy::BTU': 'btu', 'energy::ELECTRONVOLT': 'eV',
    'units::VELOCITY': 'v', 'units::ACCELERATION': 'a', 'length::AU': 'au', 'velocity::KNOT': 'kt', 'mass::TONNE': 'ton', 'mass::TON': 't',
}
PREFIX_SPELL = {v: k for k, v in U.PREFIXES.items()}
_dyn = None
def spelling_table():
    """static key -> a query word that the REAL unit parser reads as exactly that unit (power 1, no prefix): candidates
    come from /repo/tools/gen/data.toml, each is verified by running the real parser (replay op `compound`)"""
    global _dyn
    if _dyn is not None: return _dyn
    import tomllib, replay_client, mirfront
    _dyn = {}
    try:
        data = tomllib.load(open(mirfront.REPO + '/tools/gen/data.toml', 'rb'))
        ids = {}
        cands = []
        for u in data.get('units', []):
            key = u.get('name') if u.get('type') == 'derived' else u.get('unit')
            for n in u.get('names', []): cands.append((key, n, int(u['id'], 16) if 'id' in u else None))
        outs = replay_client.run_profile([{'op': 'compound', 'text': n} for _, n, _ in cands], 'dev')
        for (key, n, uid), o in zip(cands, outs):
            ents = o.get('ok')
            if not isinstance(ents, list) or len(ents) != 1: continue
            e = ents[0]
            want_unit = {'derived': uid} if uid is not None else key
            want_prefix = -3 if key == 'KiloGram' else 0
            if e[0] == want_unit and e[1] == 1 and e[2] == want_prefix:
                k = U.key(key) if uid is not None else key
                if k not in _dyn or len(n) < len(_dyn[k]): _dyn[k] = n
    except Exception as ex:
        pass
    return _dyn
def spell(name):
    t = spelling_table()
    k = name if name in U.BASE else U.key(name)
    if k in t: return t[k]
    if name in SPELL: return SPELL[name]
    return SPELL.get(k)
def spell_compound(entries):
    """query text of [(unit, power, prefix)] or None if some unit has no fixed spelling / prefix not nameable"""
    parts = []
    for u, p, f in entries:
        w = spell(u)
        if w is None: return None
        if u == 'KiloGram':
            pre = f + 3
            if pre not in PREFIX_SPELL: return None
            w = PREFIX_SPELL[pre] + 'g'
            if pre == -3 and False: return None
        else:
            if f not in PREFIX_SPELL: return None
            if f != 0 and PREFIX_SPELL[f] + w in AMBIGUOUS: return None
            w = PREFIX_SPELL[f] + w
        parts.append(w if p == 1 else f'{w}^{p}')
    return '*'.join(parts)
AMBIGUOUS = set()

def quantity_text(value, entries):
    s = spell_compound(entries)
    if s is None: return None
    v = rt.frac_str(value)
    return f'{v} {s}' if s else v

# ---- the code's own declared per-unit scale (read from the evaluated statics), used by C03/C04/C13 ----
def declared_scale(I, name):
    """(kind, Fraction scale, Fraction offset) from DerivedVtable.conversion of the static; base units: ('none', 1, 0).
    Methods conversions are probed by running the closures on a symbolic x (they must be affine: a*x + b)."""
    if name in rt.BASE_UNITS: return ('none', Fraction(1), Fraction(0))
    key = ('scale', name, id(I.bodies))
    if key in _scale_cache: return _scale_cache[key]
    vt = rt.vtable_of(I, name)
    conv = vt.items[2]
    if conv.variant == 'None': out = ('none', Fraction(1), Fraction(0))
    else:
        c = conv.items[0]
        if c.variant == 'Factor':
            fr = c.items[0]; out = ('factor', Fraction(fr.items[0].v, fr.items[1].v), Fraction(0))
        elif c.variant == 'Offset':
            fr = c.items[0]; out = ('offset', Fraction(1), Fraction(fr.items[0].v, fr.items[1].v))
        else:
            out = ('methods', None, None)
    _scale_cache[key] = out
    return out
_scale_cache = {}

def F_of(I, entries, scale=None):
    """SI value of 1 <compound> as a product over entries, (10^f * s_u)^p; concretises a symbolic power/prefix only
    for entries whose factor is not 1.  scale(name) -> Fraction (default: the code's declared scale)."""
    total = Fraction(1)
    for u, p, f in entries:
        s = scale(u) if scale else declared_scale(I, u)[1]
        if s is None: raise Unsupported('no multiplicative scale for ' + u)
        if s != 1:
            pc = I.concretize(p, what='unit power'); total *= Fraction(s) ** pc
        if not (is_conc(f) and f == 0):
            e = I.concretize(f * p, limit=200, what='prefix*power')
            total *= Fraction(10) ** e
    return total


# ---- hook-based replay cases (independent of the query parser) ----
def entries_json(I, entries):
    out = []
    for u, p, f in entries:
        if u in rt.BASE_UNITS: out.append([u, int(p), int(f)])
        else: out.append([{'derived': int(I.get_static(u).val.items[0].v)}, int(p), int(f)])
    return out
def numeric_json(I, value, entries):
    v = Fraction(value)
    return {'value': f'{v.numerator}/{v.denominator}', 'unit': entries_json(I, entries)}
def factor_case(I, tgt, src, value):
    v = Fraction(value)
    return {'op': 'factor', 'target': entries_json(I, tgt), 'source': entries_json(I, src), 'value': f'{v.numerator}/{v.denominator}'}
def names_list(entries): return [[u, int(p), int(f)] for u, p, f in entries]

def decl_si_factor(entries):
    """SI factor of a concrete compound from the code's own declared scales (master side, for replay comparison)"""
    import harness
    I = harness.interp_for('dev')
    f = Fraction(1)
    for u, p, pre in entries:
        u = resolve(I, u) if u not in rt.BASE_UNITS else u
        sc = declared_scale(I, u)[1]
        if sc is None: sc = U.scale_of(u)
        f *= (Fraction(10) ** pre * sc) ** p
    return f

# ---------------------------------------------------------------- translator validation for the operator kernels
def validate_kernels(seed, n=80, ops=('add', 'sub', 'mul', 'div', 'pow'), offsets=False):
    """seeded random CONCRETE quantities through the MIR interpreter and through the native build (numeric_op hook):
    outcome, value and unit entries must agree.  Returns the number of agreeing traces; raises on a disagreement."""
    import random, harness, replay_client, json
    rnd = random.Random(2000 + seed)
    I = harness.interp_for('dev')
    voc = vocabulary(I, offsets=offsets)
    def quantity():
        k = rnd.choice([0, 1, 1, 1, 2])
        us = rnd.sample(voc, k)
        ents = [(u, rnd.choice([-3, -2, -1, 1, 1, 2, 3]), rnd.choice([0, 0, 0, 3, -3, 6])) for u in us]
        return Fraction(rnd.randint(-40, 40), rnd.randint(1, 9)), ents
    cases = []
    for _ in range(n):
        op = rnd.choice(ops); a = quantity(); b = quantity() if op != 'pow' else (Fraction(rnd.randint(-3, 3)), [])
        cases.append((op, a, b))
    outs = replay_client.run_profile([{'op': 'numeric_op', 'fn': op, 'a': numeric_json(I, a[0], a[1]), 'b': numeric_json(I, b[0], b[1])} for op, a, b in cases], 'dev')
    okc = 0
    for (op, a, b), o in zip(cases, outs):
        FN = rt.find_fn(I, op, contains='eval::', nargs=3)
        I.reset([])
        try:
            r = I.run_body(FN, [rt.span(0, 0), rt.numeric(a[0], rt.compound(I, a[1])), rt.numeric(b[0], rt.compound(I, b[1]))])
        except PathEnd as e:
            if e.kind == 'panic' and 'panic' in o: okc += 1; continue
            if e.kind == 'bound': continue
            raise RuntimeError(f'translator validation: {op} {a} {b}: interpreter {e.kind} {e.info}, native {str(o)[:200]}')
        res = (o.get('ok') or [{}])[0]
        if r.variant == 'Err':
            if 'err' not in res: raise RuntimeError(f'translator validation: {op} {a} {b}: interpreter Err({r.items[0].items[1].variant}), native {res}')
            okc += 1; continue
        if 'ok' not in res: raise RuntimeError(f'translator validation: {op} {a} {b}: interpreter Ok, native {o}')
        v = mnum.rat_arg(I, r.items[0].items[0]); R = rt.read_compound(I, r.items[0].items[1])
        key = lambda es: sorted(json.dumps(e, sort_keys=True) for e in es)
        if Fraction(v) != rt.parse_frac(res['ok']['value']) or key(entries_json(I, R)) != key(res['ok']['unit']):
            raise RuntimeError(f'translator validation: {op} {a} {b}: interpreter {v} {R}, native {res["ok"]}')
        okc += 1
    return okc
