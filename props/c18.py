"""C18  Describing a query does not change its answer and reports exactly the facts used.

The whole pipeline (lexer, parser, Query iterator, eval::eval with its SENTENCE/WORD arm, the operators) is executed from
MIR on query templates that mix fact phrases and literals -- W, W W, W o L, L o W, W o W, W W o W, W o L o W, (W o L) o W,
the same phrase twice -- with symbolic operator characters, symbolic literal values and an ENVIRONMENT STUB for
Db::lookup: an arbitrary but fixed function of the phrase (per phrase the solver chooses: search error / nothing found /
a dimensionless constant / a constant in metres, each with its own symbolic value and description).
Every path evaluates the query TWICE against the same database object, first with Options::describe off, then on:
    the two result lists are equal (same errors at the same spans, same units, values equal for all symbolic inputs: z3),
    nothing is pushed to the description vector when the flag is off,
    with the flag on the vector equals the log of successful lookups of that evaluation, in call order, each entry
    carrying the phrase it was looked up with and the constant whose value the stub handed to the evaluator,
    and the second evaluation is not influenced by the first (same lookups, same order).
Counterexamples are replayed with real phrases of the shipped database on the native builds.
"""
import z3, sys, random, itertools, os
from fractions import Fraction
import harness, rt, qrun
from mirsym import *
from models import num as mnum
from models.core import some, none, ok, err, deref
from models.strings import StrS, gs
from models import coll
from props import exprlib as el, c01

ID = 'C18'
PROFILES = ['dev']
REPLAY_PROFILES = ['dev', 'release']
TIME_LIMIT = {'quick': 600, 'thorough': 1800}
BUDGET = 150
FIRST_BUDGET = 60

PH = ['alpha', 'beta', 'gamma', 'delta']
# real phrases of the shipped database, used to realise a counterexample on the native build (dimensionless / with a unit)
REAL = {'alpha': 'population finland', 'beta': 'population sweden', 'gamma': 'speed of light', 'delta': 'population world'}

def W(i): return ('raw', PH[i])
OPS = ('op', None, '+-*/')
def templates(tier):
    L0, L1 = ('leaf', 0), ('leaf', 1)
    t = {
        'w': [W(0)], 'ww': [W(0), W(1)], 'w-l': [W(0), OPS, L0], 'l-w': [L0, OPS, W(0)], 'w-w': [W(0), OPS, W(1)], 'w-same': [W(0), OPS, W(0)],
        'ww-w': [W(0), W(1), OPS, W(2)], 'w-l-w': [W(0), OPS, L0, OPS, W(1)], 'p(w-l)-w': [('lp',), W(0), OPS, L0, ('rp',), OPS, W(1)],
        'w-same-w': [W(0), OPS, W(1), OPS, W(0)], 'l-p(w-w)': [L0, OPS, ('lp',), W(0), OPS, W(1), ('rp',)], 'round(w)': [('call', 'round'), ('lp',), W(0), ('rp',), OPS, L0],
    }
    if tier != 'quick':
        t.update({'w-w-w': [W(0), OPS, W(1), OPS, W(2)], 'w-w-w-same': [W(0), OPS, W(1), OPS, W(0), OPS, W(1)], 'ww-ww': [W(0), W(1), OPS, W(2), W(3)], 'w-l-w-l': [W(0), OPS, L0, OPS, W(1), OPS, L1]})
    return t

def jobs(tier, seed, report):
    ts = templates(tier)
    report.bounds = {'templates': sorted(ts), 'operators': 'symbolic over + - * /', 'literal_values': 'unbounded symbolic rationals', 'lookups': 'per phrase: error / not found / dimensionless constant / constant in m, symbolic values', 'describe': 'each path runs the query with the flag off and then on, against the same database object'}
    report.outside = ['that tantivy\'s Db::lookup(&self) is a pure function of the phrase (environment contract of the stub; the check reports anything eval does to the database other than calling lookup as unsupported)', 'longer queries']
    report.assumptions = ['Db::lookup stub: fixed function of the phrase', 'syntree model, literal cut (C07)']
    report.models_used = ['num', 'core', 'coll', 'strings', 'tree']
    report.required_witnesses = ['same-results', 'descriptions-match-lookups', 'nothing-described-when-off', 'same-phrase-twice', 'lookup-failure-reported', 'sentence-phrase', 'real-lookup-body', 'isolated-second-query']
    js = [{'name': f'tpl-{k}', 'tpl': k} for k in ts]
    # the same with the crate's OWN Db (built by Db::open_inner(true) from MIR) and its own Db::lookup body; only tantivy's
    # search is a stub (a fixed function of the query text): catches state kept inside the database object
    for k in ('w-same', 'w-w', 'ww-w', 'w-l-w'): js.append({'name': f'realdb-{k}', 'tpl': k, 'realdb': True})
    for a, b in (('alpha beta', 'alphabeta'), ('alphabeta', 'alpha beta'), ('alpha beta', 'ALPHA BETA'), ('alpha', 'alpha  beta'), ('alpha beta', 'beta alpha'), ('alpha', 'alpha')):
        js.append({'name': f'isolation-{a}|{b}', 'seq': [a, b], 'realdb': True})
    return js

def make_stub(I):
    facts = I.path_state.setdefault('facts', {})
    def stub(I, phrase):
        text = phrase.text() if phrase.is_concrete() else None
        if text is None: raise Unsupported('lookup of a phrase with symbolic characters')
        if text not in facts:
            c = I.fresh_int('outcome'); I.assume(z3.And(c >= 0, c <= 3))
            k = I.concretize(c, what='lookup outcome')
            v = I.fresh_real('fact')
            facts[text] = (k, v)
        k, v = facts[text]
        log = I.path_state.setdefault('log', [])
        if k == 0:
            log.append((text, 'err')); return err(VEnum('db::LookupError', 'QueryParserError', [VObj('opaque')]))
        if k == 1:
            log.append((text, 'none')); return ok(none())
        unit = rt.compound(I, [('Meter', 1, 0)] if k == 3 else [])
        const = VStruct('db::Constant', [none(), coll.vec([]), StrS.from_text('fact ' + text), rt.rational(v), unit])
        log.append((text, 'found', v, k))
        return ok(some(VEnum('db::Match', 'Constant', [const])))
    return stub

_tv = False
def install_tantivy(I):
    """stubs for what Db::lookup asks of tantivy: the search result is a fixed function of the query text"""
    global _tv
    if _tv: return
    _tv = True
    import re as _re, glob as _glob
    from models import M as MODELS
    from props import c15
    c15.install(I)
    # layout of tantivy::schema::Value (the body matches on Value::Bytes): read from the pinned dependency's source
    try:
        src = open(sorted(_glob.glob(os.path.expanduser('~/.cargo/registry/src/*/tantivy-0.19.2/src/schema/value.rs')))[0]).read()
        body = src[src.index('pub enum Value {'):]; body = body[:body.index('\n}')]
        vs = _re.findall(r'^\s{4}(\w+)\(', body, _re.M)
        I.enums['Value'] = {v: i for i, v in enumerate(vs)}
    except Exception:
        I.enums['Value'] = {v: i for i, v in enumerate(['Str', 'PreTokStr', 'U64', 'I64', 'F64', 'Bool', 'Date', 'Facet', 'Bytes', 'JsonObject', 'IpAddr'])}
    def M(pat):
        def deco(fn): MODELS.insert(0, (_re.compile(pat), fn)); return fn
        return deco
    def outcome(I, text):
        facts = I.path_state.setdefault('facts', {})
        if text not in facts:
            c = I.fresh_int('outcome'); I.assume(z3.And(c >= 0, c <= 3))
            facts[text] = (I.concretize(c, what='lookup outcome'), I.fresh_real('fact'))
        return facts[text]
    @M(r'^(?:tantivy::)?IndexReader::searcher$')
    def searcher(I, m, a, dt): return VObj('searcher')
    @M(r'^(?:tantivy::query::)?QueryParser::for_index$')
    def for_index(I, m, a, dt): return VObj('qparser')
    @M(r'^(?:tantivy::query::)?QueryParser::parse_query$')
    def parse_query(I, m, a, dt):
        text = gs(I, a[1]).text(); k, v = outcome(I, text)
        log = I.path_state.setdefault('log', [])
        if k == 0:
            log.append((text, 'err')); return err(VObj('queryparsererror'))
        return ok(VObj('tquery', text=text))
    @M(r'^(?:tantivy::collector::)?TopDocs::with_limit$')
    def with_limit(I, m, a, dt): return VObj('topdocs')
    @M(r'^(?:tantivy::)?Searcher::search::<.*>$')
    def search(I, m, a, dt):
        q = deref(I, a[1]); k, v = outcome(I, q.text)
        log = I.path_state.setdefault('log', [])
        if k == 1:
            log.append((q.text, 'none')); return ok(coll.vec([]))
        log.append((q.text, 'found', v, k))
        return ok(coll.vec([VTuple([VFloat('score'), VObj('docaddr', text=q.text)])]))
    @M(r'^(?:tantivy::)?Searcher::doc$')
    def doc(I, m, a, dt): return ok(VObj('tdoc', text=a[1].text))
    @M(r'^(?:tantivy::)?Document::get_first$')
    def get_first(I, m, a, dt):
        d = deref(I, a[0]); return some(VRef(Cell(VEnum('tantivy::schema::Value', 'Bytes', [VObj('cbor_of', text=d.text)])), []))
    @M(r'^<(?:std::vec::)?Vec<u8> as (?:std::ops::)?Deref>::deref$')
    def vecu8_deref(I, m, a, dt): return a[0]
    @M(r"^serde_cbor::from_slice::<'_, (?:db::)?Constant>$")
    def from_slice(I, m, a, dt):
        b = deref(I, a[0]); k, v = outcome(I, b.text)
        unit = rt.compound(I, [('Meter', 1, 0)] if k == 3 else [])
        return ok(VStruct('db::Constant', [none(), coll.vec([]), StrS.from_text('fact ' + b.text), rt.rational(v), unit]))
    I.model_cache.clear()

def real_db(I):
    """the crate's own database object: Db::open_inner(true) executed from MIR against the environment stubs of C15"""
    I.path_state['env'] = {'disk': {'meta': 'absent', 'index': 'absent'}, 'trace': [], 'broken': [], 'k': 0, 'crash_at': None, 'start': 0, 'outcomes': [], 'crashes': [], 'version': '0'}
    OPEN = rt.find_fn(I, 'open_inner', contains='db')
    r = I.run_body(OPEN, [VBool(True)])
    if r.variant != 'Ok': raise PathEnd('panic', 'Db::in_memory failed in the model')
    return VRef(Cell(r.items[0]), [])

def run_job(job, res, prefixes, budget, deadline):
    I = harness.interp_for('dev', {'pow_bound': 40})
    qrun.install(I)
    if job.get('realdb'): install_tantivy(I)
    if 'seq' in job: return isolation_job(I, job, res, prefixes, budget, deadline)
    tpl = el.Template(templates('thorough')[job['tpl']], name=job['tpl'])
    def entry(I):
        s, info = el.build(I, tpl, exp_bound=2)
        I.path_state.update({'s': s, 'info': info, 'leaves': {span: info['leaves'][li][0] for span, li in info['leafspan'].items()}, 'lookup': make_stub(I)})
        if job.get('realdb'):
            I.path_state['real_lookup'] = True; I.path_state['dbref'] = real_db(I)
        runs = []
        for describe in (False, True):
            I.path_state['log'] = []
            r = qrun.run_query(I, s, describe=describe)
            runs.append((r, list(I.path_state['log'])))
        return runs
    def on_path(I, out, res):
        kind, runs = out
        info = I.path_state.get('info')
        if info is None: return
        toks = el.concrete_tokens(I, tpl, info)
        def cand(role, detail, m=None):
            if m is None:
                rr, m = I.model_for(None)
                if m is None: return
            case = c01.make_case(I, m, tpl, toks)
            case['outcomes'] = {p: k for p, (k, v) in I.path_state.get('facts', {}).items()}
            case['template'] = job['tpl']
            try:
                r1_ = runs[1][0]
                case['result_kinds'] = ['Ok' if x.variant == 'Ok' else qrun.err_kind(x) for x in r1_.results]
                case['lookups_found'] = [t[0] for t in runs[1][1] if t[1] == 'found']
            except Exception: pass
            res['candidates'].append({'role': role, 'case': case, 'detail': detail})
        res['obligations'] += 1
        if kind == 'panic': cand('panic', str(runs)); return
        if kind != 'ok': return
        (r0, log0), (r1, log1) = runs
        if r0.parse.variant != 'Ok' or r1.parse.variant != 'Ok': cand('parse-failed', ''); return
        if len(r0.results) != len(r1.results): cand('result-count-differs', f'{len(r0.results)} vs {len(r1.results)}'); return
        if [(t[0], t[1]) for t in log0] != [(t[0], t[1]) for t in log1]: cand('lookups-differ-between-evaluations', f'{log0} vs {log1}'); return
        res['discharged'] += 1
        diffs = []
        for x, y in zip(r0.results, r1.results):
            res['obligations'] += 1
            if x.variant != y.variant: cand('describe-changes-result', f'{x.variant} vs {y.variant}'); return
            if x.variant == 'Err':
                if (qrun.err_kind(x), qrun.err_span(x)) != (qrun.err_kind(y), qrun.err_span(y)): cand('describe-changes-error', f'{qrun.err_kind(x)}{qrun.err_span(x)} vs {qrun.err_kind(y)}{qrun.err_span(y)}'); return
                res['discharged'] += 1
                if qrun.err_kind(x) in ('Missing', 'LookupError'): res.witness('lookup-failure-reported')
                continue
            ux = rt.read_compound(I, x.items[0].items[1]); uy = rt.read_compound(I, y.items[0].items[1])
            if [(u, str(p), str(f)) for u, p, f in ux] != [(u, str(p), str(f)) for u, p, f in uy]: cand('describe-changes-unit', f'{ux} vs {uy}'); return
            res['discharged'] += 1
            vx = mnum.rat_arg(I, x.items[0].items[0]); vy = mnum.rat_arg(I, y.items[0].items[0])
            diffs.append(znot(mnum.req(vx, vy)))
        if diffs:
            if res.obligation(I, zor(*diffs), 'values are the same with and without descriptions', lambda m: cand('describe-changes-value', 'values differ', m)) == 'unsat': res.witness('same-results')
        else: res.witness('same-results')
        # descriptions
        d0 = r0.descriptions.items if r0.descriptions is not None else []
        d1 = r1.descriptions.items if r1.descriptions is not None else []
        res['obligations'] += 1
        if d0: cand('described-although-off', f'{len(d0)} descriptions with the flag off'); return
        res['discharged'] += 1; res.witness('nothing-described-when-off')
        found = [t for t in log1 if t[1] == 'found']
        res['obligations'] += 1
        got = []
        for d in d1:
            ph = gs(I, d.items[0]).text(); c = d.items[1]
            got.append((ph, gs(I, c.items[2]).text(), mnum.rat_arg(I, c.items[3])))
        if [(g[0], g[1]) for g in got] != [(t[0], 'fact ' + t[0]) for t in found]:
            cand('descriptions-differ-from-lookups', f'described {[(g[0], g[1]) for g in got]}, looked up {[t[0] for t in found]} (in call order)'); return
        res['discharged'] += 1
        if got:
            st = res.obligation(I, zor(*[znot(mnum.req(g[2], t[2])) for g, t in zip(got, found)]), 'each description carries the constant that was handed to the evaluator', lambda m: cand('description-carries-other-constant', 'value differs', m))
            if st == 'unsat': res.witness('descriptions-match-lookups')
        else: res.witness('descriptions-match-lookups')
        # reference side: when every result is a value, every phrase of the query was USED -- each occurrence (maximal run of
        # words) must be described, whether or not the evaluator went to the database for it again
        if r1.results and all(x.variant == 'Ok' for x in r1.results):
            occ = []; run = []
            for t in list(toks) + [('end',)]:
                if t[0] == 'raw': run.append(t[1])
                else:
                    if run: occ.append(' '.join(run)); run = []
            res['obligations'] += 1
            if sorted(' '.join(g[0].split()) for g in got) != sorted(occ):
                cand('descriptions-differ-from-phrases-used', f'described {[g[0] for g in got]}, the query uses {occ}'); return
            res['discharged'] += 1
            if len(occ) != len(set(occ)): res.witness('same-phrase-twice')
        if any(' ' in t[0] for t in found): res.witness('sentence-phrase')
        if job.get('realdb'): res.witness('real-lookup-body')
        if len(res['samples']) < 5 and len(found) >= 2:
            res['samples'].append({'template': job['tpl'], 'operators': ''.join(t[1] for t in toks if t[0] == 'op'), 'lookups_in_call_order': [t[0] for t in log1], 'described': [g[0] for g in got]})
    harness.explore(I, res, entry, on_path, prefixes, budget, deadline)

def isolation_job(I, job, res, prefixes, budget, deadline):
    """query A then query B against ONE database object; B alone against a fresh one: B's result must be the same"""
    a_text, b_text = job['seq']
    def entry(I):
        I.path_state['real_lookup'] = True
        db1 = real_db(I)
        outs = []
        for text, db in ((a_text, db1), (b_text, db1), (b_text, None)):
            I.path_state['dbref'] = db if db is not None else real_db(I)
            I.path_state['log'] = []
            r = qrun.run_query(I, StrS.from_text(text))
            outs.append((r, list(I.path_state['log'])))
        return outs
    def on_path(I, out, res):
        kind, outs = out
        if kind not in ('ok', 'panic'): return
        res['obligations'] += 1
        case = {'op': 'query_sequence', 'queries': [REAL.get(a_text, a_text), REAL.get(b_text, b_text)], 'model_queries': [a_text, b_text]}
        if kind == 'panic': res['candidates'].append({'role': 'panic', 'case': case, 'detail': str(outs)}); return
        (ra, la), (rb, lb), (rf, lf) = outs
        def summary(r):
            o = []
            for x in r.results:
                if x.variant == 'Err': o.append(('err', qrun.err_kind(x)))
                else: o.append(('ok', mnum.rat_arg(I, x.items[0].items[0])))
            return o
        sb, sf = summary(rb), summary(rf)
        if [x[0] for x in sb] != [x[0] for x in sf] or [(t[0], t[1]) for t in lb] != [(t[0], t[1]) for t in lf]:
            res['candidates'].append({'role': 'earlier-query-changes-later-one', 'case': case, 'detail': f'after {a_text!r}: {sb} / lookups {lb}; alone: {sf} / {lf}'}); return
        res['discharged'] += 1
        diffs = [znot(mnum.req(x[1], y[1])) for x, y in zip(sb, sf) if x[0] == 'ok']
        if diffs:
            st = res.obligation(I, zor(*diffs), 'the second query has the value it has in isolation', lambda m: res['candidates'].append({'role': 'earlier-query-changes-later-one', 'case': case, 'detail': f'after {a_text!r} the query {b_text!r} evaluates differently'}))
            if st == 'unsat': res.witness('isolated-second-query')
        else: res.witness('isolated-second-query')
    harness.explore(I, res, entry, on_path, prefixes, budget, deadline)

# ---------------------------------------------------------------- replay
def confirm(c, outs):
    """realised with real phrases: the query is evaluated with and without descriptions on the native builds"""
    import replay_client
    case = c['case']
    if case.get('op') == 'query_sequence':
        # realised with pairs of real phrases that differ only in blanks / case / word boundaries, both orders
        pairs = [('population oman', 'population o man'), ('population o man', 'population oman'), ('g0', 'g 0'), ('g 0', 'g0'), ('population finland', 'populationfinland'),
                 ('population finland', 'POPULATION FINLAND'), ('population finland', 'finland population'), ('population finland', 'population  finland'), ('pi', 'p i')]
        outs = replay_client.run_profile([{'op': 'query_sequence', 'queries': list(p)} for p in pairs], 'dev', timeout=300)
        for p, o in zip(pairs, outs):
            if 'panic' in o: return True, f'panic on {p}'
            r = o.get('ok')
            if r and r['second_after_first'] != r['second_alone']:
                return True, f'after {p[0]!r} the query {p[1]!r} gives {r["second_after_first"]}, alone it gives {r["second_alone"]}'
        return False, 'no realisation with real phrases shows an influence'
    text = case['text']
    for k, v in REAL.items(): text = text.replace(k, v)
    a = replay_client.run_cases([{'op': 'query', 'text': text, 'describe': False}], profiles=REPLAY_PROFILES)[0]
    b = replay_client.run_cases([{'op': 'query', 'text': text, 'describe': True}], profiles=REPLAY_PROFILES)[0]
    for prof in REPLAY_PROFILES:
        x, y = a[prof], b[prof]
        if 'panic' in x or 'panic' in y: return True, f'{prof}: panic'
        if x.get('ok') != y.get('ok'): return True, f'{prof}: {text!r}: results differ with descriptions on: {x.get("ok")} vs {y.get("ok")}'
        if x.get('descriptions'): return True, f'{prof}: {text!r}: descriptions produced although the flag is off'
        # expected: every phrase occurrence whose lookup succeeds is described; order = evaluation order (right operand first)
        import re
        phrases = [p.strip() for p in re.split(r'[-+*/()]|round|\d+(?:\.\d+)?', text) if p.strip()]
        got = [d['query'] for d in y.get('descriptions', [])]
        if any('err' in r for r in (y.get('ok') or [])):
            # a failing expression: the facts looked up before the failure are still to be described.  Judged only where the
            # native run provably takes the model's course: single-word phrases that all exist, the same Ok / divide-by-zero
            # pattern of results; then the described phrases must be the model's lookups (made by the same code), in order
            kinds = case.get('result_kinds'); toks = case.get('tokens') or []
            if not kinds or 'lookups_found' not in case: continue
            if any(a[0] == 'raw' and b[0] == 'raw' for a, b in zip(toks, toks[1:])): continue
            if any(v not in (2, 3) for v in (case.get('outcomes') or {}).values()): continue
            nat = ['Ok' if 'ok' in r else ('DivideByZero' if 'divide by zero' in str(r.get('err')) else 'other') for r in y['ok']]
            if nat != kinds or 'other' in nat: continue
            want = [REAL.get(p_, p_) for p_ in case['lookups_found']]
            if got != want: return True, f'{prof}: {text!r} (a result fails with divide by zero): described {got}, looked up before the failure {want}'
            continue
        if sorted(got) != sorted(phrases): return True, f'{prof}: {text!r}: described {got}, phrases used {phrases}'
    return False, 'real build agrees'

def validate(tier, seed, report):
    from props import exprlib
    return exprlib.validate_pipeline(seed, 60 if tier == 'quick' else 300)

def known_match(k, c): return True

if __name__ == '__main__':
    sys.exit(harness.main(sys.modules[__name__]))
