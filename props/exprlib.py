"""Shared machinery of the expression checks (C01, C06, C11, C12, C18): query templates with symbolic operator characters,
symbolic blanks and symbolic leaf values, run through the REAL lexer, parser and evaluator from MIR, compared with the
reference grammar / exact evaluator of spec/exprs.py."""
import z3, itertools
from fractions import Fraction
import harness, rt, qrun
from mirsym import *
from models import num as mnum
from models.strings import StrS
from spec import exprs as X

OPCH = {'+': 43, '-': 45, '*': 42, '/': 47, '^': 94}
OP_OF_KIND = {'OP_ADD': '+', 'OP_SUB': '-', 'OP_MUL': '*', 'OP_IMPLICIT_MUL': '*', 'OP_DIV': '/', 'OP_POWER': '^', 'OP_CAST': 'to'}

class Template:
    """tokens: spec/exprs.py tokens, where an operator may be ('op', None, allowed) = symbolic over `allowed`;
    gaps[i]: blanks before token i (gaps[len] = trailing): int n = n symbolic blanks (space/tab), or a literal str."""
    def __init__(self, tokens, gaps=None, name=''):
        self.tokens = tokens; self.name = name
        self.gaps = gaps if gaps is not None else default_gaps(tokens)

def default_gaps(tokens):
    g = [0]
    for i in range(1, len(tokens)):
        a, b = tokens[i - 1], tokens[i]
        tight = b[0] in ('pct', 'rp', 'comma') or a[0] in ('lp', 'call') or (a[0] == 'call' and b[0] == 'lp') or b[0] == 'unit' and a[0] == 'leaf'
        if a[0] == 'call' and b[0] == 'lp': tight = True
        g.append(0 if tight else ' ')
    g.append(0)
    return g

LEAF_TEXT = ['7', '3', '5', '2', '9', '4', '6', '8', '11', '13', '17', '19']

def build(I, tpl, leaf_bound=None, exp_bound=2):
    """-> (StrS, info).  Declares the symbolic pieces on the current path (assumptions added to I)."""
    chars = []; info = {'leafspan': {}, 'opvars': [], 'leaves': {}, 'wsvars': [], 'tokpos': []}
    def put(text):
        for ch in text: chars.append((VInt(ord(ch), 'char'), len(ch.encode())))
    def put_gap(g, gi):
        if isinstance(g, str): put(g); return
        for k in range(g):
            w = z3.Int(f'ws{gi}_{k}'); I.assume(z3.Or(w == 32, w == 9)); info['wsvars'].append(w)
            chars.append((VInt(w, 'char'), 1))
    nops = 0
    for ti, t in enumerate(tpl.tokens):
        put_gap(tpl.gaps[ti], ti)
        start = len(chars)
        k = t[0]
        if k == 'leaf':
            put(LEAF_TEXT[t[1] % len(LEAF_TEXT)]); info['leafspan'][(start, len(chars))] = t[1]
        elif k == 'pct': put('%')
        elif k == 'op':
            if t[1] is None:
                c = z3.Int(f'op{nops}'); allowed = t[2]
                I.assume(z3.Or([c == OPCH[a] for a in allowed]))
                chars.append((VInt(c, 'char'), 1)); info['opvars'].append((ti, c))
            else: put(t[1])
            nops += 1
        elif k == 'lp': put('(')
        elif k == 'rp': put(')')
        elif k == 'comma': put(',')
        elif k == 'call': put(t[1])
        elif k == 'unit': put(t[1])
        elif k == 'raw': put(t[1])
        info['tokpos'].append((start, len(chars)))
    put_gap(tpl.gaps[len(tpl.tokens)], len(tpl.tokens))
    # leaves are plain reals (keeps the path conditions in pure nonlinear REAL arithmetic, which z3 decides completely);
    # integrality is only stated, guarded by the operator, for leaves in exponent position (below)
    nleaf = 1 + max([t[1] for t in tpl.tokens if t[0] == 'leaf'], default=-1)
    for i in range(nleaf):
        info['leaves'][i] = (z3.Real(f'L{i}'), None, None)
    # a leaf (or every leaf of a parenthesised group) that directly follows `^` is a small integer
    for ti, t in enumerate(tpl.tokens):
        if t[0] != 'op': continue
        grp = exponent_group(tpl.tokens, ti)
        if not grp: continue
        cond = (t[1] in ('^', '**')) if t[1] is not None else [c for (tj, c) in info['opvars'] if tj == ti][0] == OPCH['^']
        if is_conc(cond) and not cond: continue
        cs = []
        for li in grp:
            L = info['leaves'][li][0]; E = z3.Int(f'E{li}'); info.setdefault('expint', {})[li] = (L, E)
            cs += [L == z3.ToReal(E), E >= -exp_bound, E <= exp_bound]
        # operators inside a group in exponent position keep it integral: + - * only
        if tpl.tokens[ti + 1][0] == 'lp':
            depth = 0
            for tj in range(ti + 1, len(tpl.tokens)):
                tt = tpl.tokens[tj]
                if tt[0] == 'lp': depth += 1
                elif tt[0] == 'rp':
                    depth -= 1
                    if depth == 0: break
                elif tt[0] == 'op':
                    if tt[1] is None:
                        c = [c for (tk, c) in info['opvars'] if tk == tj][0]
                        cs.append(z3.Or(c == OPCH['+'], c == OPCH['-'], c == OPCH['*']))
                    elif tt[1] not in '+-*': cs.append(False)
        I.assume(z3.And(cs) if is_conc(cond) else z3.Implies(cond, z3.And(cs)))
    s = StrS(chars)
    info['nleaf'] = nleaf
    return s, info

def exponent_group(tokens, ti):
    """leaf indices of the operand that follows the operator at ti (single leaf, or all leaves of a parenthesised group)"""
    j = ti + 1
    if j >= len(tokens): return []
    if tokens[j][0] == 'leaf': return [tokens[j][1]]
    if tokens[j][0] == 'lp':
        depth = 0; out = []
        for t in tokens[j:]:
            if t[0] == 'lp': depth += 1
            elif t[0] == 'rp':
                depth -= 1
                if depth == 0: break
            elif t[0] == 'leaf': out.append(t[1])
        return out
    return []

def concrete_tokens(I, tpl, info):
    """template tokens with every symbolic operator pinned on this path (forks when the path left it open)"""
    inv = {v: k for k, v in OPCH.items()}
    toks = list(tpl.tokens)
    for ti, c in info['opvars']:
        v = I.concretize(c, what='operator character')
        toks[ti] = ('op', inv[v])
    return toks

def model_text(m, s):
    return ''.join(chr(rt.mval(m, c.v)) if not is_conc(c.v) else chr(c.v) for c, _ in s.chars)

# ---------------------------------------------------------------- real tree -> AST
class N:
    __slots__ = ('kind', 'start', 'end', 'kids', 'token')
    def __init__(self, kind, start, end, token): self.kind = kind; self.start = start; self.end = end; self.kids = []; self.token = token

def nodes_of_model(t):
    """TreeM -> [N] (root level)"""
    def walk(i):
        out = []
        while i is not None:
            l = t.tree[i]
            n = N(l.data.variant, l.start, l.end, l.first is None)
            if l.first is not None: n.kids = walk(l.first)
            out.append(n); i = l.next
        return out
    return walk(t.first)
def nodes_of_rows(rows):
    """replay `tree` rows [(depth, kind, start, end, is_token)] -> [N]"""
    root = []; stack = [(-1, root)]
    for depth, kind, start, end, tok in rows:
        n = N(kind, start, end, False)
        while stack[-1][0] >= depth: stack.pop()
        stack[-1][1].append(n); stack.append((depth, n.kids))
    def fix(ns):
        for n in ns:
            n.token = not n.kids
            fix(n.kids)
    fix(root)
    return root

def to_ast(n, text_of, leafspan):
    """N -> AST of spec/exprs.py (or ('error', why))"""
    k = n.kind
    inner = [c for c in n.kids if not c.token]
    if k == 'OPERATION':
        if not inner: return ('error', 'empty OPERATION')
        acc = to_ast(inner[0], text_of, leafspan)
        i = 1
        while i + 1 < len(inner):
            op = OP_OF_KIND.get(inner[i].kind)
            if op is None: return ('error', f'operator {inner[i].kind}')
            if op == 'to':
                acc = ('cast', acc, text_of(inner[i + 1].start, inner[i + 1].end).strip() if inner[i + 1].kind == 'UNIT' else ('error', inner[i + 1].kind))
            else:
                acc = ('bin', op, acc, to_ast(inner[i + 1], text_of, leafspan))
            i += 2
        if i < len(inner): return ('error', 'dangling operator')
        return acc
    if k in ('NUMBER', 'PERCENTAGE', 'WITH_UNIT'):
        first = n.kids[0] if n.kids else n
        li = leafspan.get((first.start, first.end))
        if li is None: return ('error', f'number at {first.start}..{first.end} is not a template leaf')
        unit = None
        if k == 'WITH_UNIT':
            us = [c for c in n.kids if c.kind == 'UNIT']
            unit = text_of(us[0].start, us[0].end).strip() if us else '?'
        return ('leaf', li, k == 'PERCENTAGE', unit)
    if k == 'FN_CALL':
        name = [c for c in n.kids if c.kind == 'FN_NAME']; args = [c for c in n.kids if c.kind == 'FN_ARGUMENTS']
        if not name or not args: return ('error', 'malformed call')
        return ('call', text_of(name[0].start, name[0].end), [to_ast(a, text_of, leafspan) for a in args[0].kids if not a.token])
    return ('error', k)

# ---------------------------------------------------------------- symbolic arithmetic for the reference
class ZOps:
    false = False
    def __init__(self, I): self.I = I
    def const(self, q): return q
    add = staticmethod(mnum.radd); sub = staticmethod(mnum.rsub); mul = staticmethod(mnum.rmul)
    def div(self, a, b):
        if mnum.is_c(a) and mnum.is_c(b): return Fraction(a) / Fraction(b) if b != 0 else Fraction(0)
        return mnum.rz(a) / mnum.rz(b)
    def eq0(self, a): return mnum.req(a, 0)
    def lor(self, a, b): return zor(a, b)
    def int_of(self, b):
        """python int value of an exponent term on this path: leaves in exponent position have integer twins E_i
        (L_i == ToReal(E_i) is part of the path condition there), so the term is rewritten over them"""
        I = self.I
        if mnum.is_c(b):
            if Fraction(b).denominator != 1: raise Unsupported('reference: non-integer exponent')
            return Fraction(b).numerator
        twins = I.path_state['info'].get('expint', {})
        bi = z3.substitute(mnum.rz(b), [(L, z3.ToReal(E)) for L, E in twins.values()])
        iv = mnum.int_valued(z3.simplify(bi))
        if iv is None: raise Unsupported('reference: exponent is not an integer term')
        if I.check(mnum.rz(b) != z3.ToReal(mnum.iz(iv))) != z3.unsat: raise Unsupported('reference: exponent not provably an integer on this path')
        return I.concretize(mnum.iz(iv), what='reference exponent')
    def powi(self, a, n):
        if n == 0: return 1
        if mnum.is_c(a): return Fraction(a) ** n if not (a == 0 and n < 0) else Fraction(0)
        p = z3.Product([mnum.rz(a)] * abs(n))
        return p if n > 0 else 1 / p

# ---------------------------------------------------------------- translator validation (concrete mode vs native build)
VALID_VOCAB = ['7', '12', '0.5', '3e2', '-4', '.25', ' ', '  ', '+', '-', '*', '/', '^', '**', '(', ')', ',', '%', 'to', 'm', 'km', 's', 'kg', 'N', 'ft', 'min', 'round', 'floor', '2', '1']
def validate_pipeline(seed, n=60, profile='dev'):
    """mirsym with all-concrete inputs is a MIR interpreter: seeded random strings over a lexeme vocabulary are pushed
    through both the interpreter (real from_str, no cuts) and the native build (replay ops `tree` and `query`) and the
    syntax trees and results are compared.  Returns the number of agreeing traces; raises on a disagreement."""
    import random, replay_client
    from models import tree as mt
    rnd = random.Random(1000 + seed)
    I = harness.interp_for(profile)
    texts = []
    for _ in range(n):
        k = rnd.randint(1, 7)
        texts.append(''.join(rnd.choice(VALID_VOCAB) for _ in range(k)))
    texts += ['1 + 2 * 3 ^ 4 + 5', '2 * (3 + 4)', 'round(2.55 , 1) * 2', '3 m + 2 ft to cm', '(3 + 4 )', '10 %', '1 m m^2', '6 / 0', '0 ^ -1', '1 kg*m/s^2 to N']
    native_t = replay_client.run_profile([{'op': 'tree', 'text': t} for t in texts], profile)
    native_q = replay_client.run_profile([{'op': 'query', 'text': t} for t in texts], profile)
    okc = 0
    for t, nt, nq in zip(texts, native_t, native_q):
        I.reset([])
        I.path_state['lookup'] = None
        try:
            r = qrun.run_query(I, StrS.from_text(t))
        except PathEnd as e:
            if e.kind == 'panic' and ('panic' in nt or 'panic' in nq): okc += 1; continue
            if 'Db::lookup' in str(e.info): continue      # a word that is looked up: environment, not compared
            raise RuntimeError(f'translator validation: {t!r}: interpreter ended with {e.kind} {e.info}, native {str(nq)[:200]}')
        rows = nt.get('ok')
        if r.parse.variant != 'Ok' or rows is None:
            if (r.parse.variant == 'Ok') != (rows is not None): raise RuntimeError(f'translator validation: {t!r}: parse outcome differs')
            okc += 1; continue
        mine = [(d, k, s_, e_) for d, k, s_, e_, _ in mt.dump_tree(r.tree.t)]
        theirs = [(d, k, s_, e_) for d, k, s_, e_, _ in rows]
        if mine != theirs: raise RuntimeError(f'translator validation: {t!r}: syntax tree differs\n  interpreter {mine}\n  native      {theirs}')
        nres = nq.get('ok')
        if nres is None: raise RuntimeError(f'translator validation: {t!r}: native query failed: {nq}')
        if len(nres) != len(r.results): raise RuntimeError(f'translator validation: {t!r}: {len(r.results)} results vs native {len(nres)}')
        for x, y in zip(r.results, nres):
            if x.variant == 'Ok':
                if 'ok' not in y: raise RuntimeError(f'translator validation: {t!r}: Ok vs native {y}')
                v = mnum.rat_arg(I, x.items[0].items[0])
                if Fraction(v) != rt.parse_frac(y['ok']['value']): raise RuntimeError(f'translator validation: {t!r}: value {v} vs native {y["ok"]["value"]}')
            else:
                if 'err' not in y or qrun.err_span(x) != (y['start'], y['end']): raise RuntimeError(f'translator validation: {t!r}: {qrun.err_kind(x)}{qrun.err_span(x)} vs native {y}')
        okc += 1
    return okc
