"""C03  Unit conversion preserves the physical quantity.

Compound::factor (apply_conversion, Rational::pow, the prefix scaling) is executed from MIR converting an unbounded
symbolic magnitude x from a source compound to a commensurable target compound; units are concrete per job, powers and
SI prefixes are solver variables (powers -3..3, prefixes over all 21 SI values).  On every path z3 proves

        factor(target <- source)(x)  ==  x * F(source) / F(target),     F(U) = prod_i (10^prefix_i * s_i)^power_i

where s_i is the unit's own declared scale (read from its static; checked against the standards in C05).  The laws of
the property are corollaries of this single multiplicative form: round trip (F1/F2 * F2/F1 = 1), via an intermediate
unit, linearity in x, "a prefix is exactly its power of ten", and the power / product rules; they are additionally
executed directly as two- and three-step chains.
"""
import z3, sys, random, itertools
from fractions import Fraction
import harness, rt
from mirsym import *
from models import num as mnum
from spec import units as U
from props import unitlib as ul

ID = 'C03'
PROFILES = ['dev']
REPLAY_PROFILES = ['dev', 'release']
BUDGET = 150
FIRST_BUDGET = 300
TIME_LIMIT = {'quick': 900, 'thorough': 3300}
PREFIX_VALUES = sorted(set(U.PREFIXES.values()))
FEW_PREFIXES = [-3, 0, 6]
SWEEP_UNITS = ['Meter', 'KiloGram', 'Second', 'length::FOOT', 'volume::LITRE', 'units::NEWTON', 'energy::ELECTRONVOLT']

def dim_classes(I, names):
    cls = {}
    for n in names:
        d = tuple(sorted(U.dims_of(n).items()))
        cls.setdefault(d, []).append(n)
    return cls

def jobs(tier, seed, report):
    report.bounds = {'magnitude': 'unbounded rational (SMT Real)', 'powers': '-3..3 without 0, symbolic', 'prefixes': 'all 21 SI prefix exponents, symbolic (forked over the feasible prefix*power values)',
                     'shapes': 'the same 2-3-unit product on both sides with an independent symbolic prefix on every entry; every unit to/from its base-SI expansion; all ordered pairs inside each dimension class (1 entry each); products/quotients: 2 and 3 entries per side over the 14-unit basis (quick: seeded sample), thorough: 4 entries; products/quotients of two different units of one dimension to base SI (all pairs, both tiers); every derived unit on BOTH sides with different powers (u^a*base(u)^(b-a) to u^b; quick: one seeded (a,b) of ten per unit, thorough: all ten), symbolic prefixes {0,3,-2} on both'}
    report.outside = ['more than 4 factors per side', 'offset scales (C09)', 'that the declared scales are the standard ones (C05)']
    report.assumptions = ['BigRational exact (SMT Real)', 'BTreeMap association-list model with the crate\'s own Ord']
    report.models_used = ['num', 'coll', 'core']
    report.required_witnesses = ['to-base', 'from-base', 'same-class-pair', 'prefix-exact', 'power-law', 'product', 'chain', 'shared-unit']
    rnd = random.Random(seed)
    I = harness.interp_for('dev')
    voc = ul.vocabulary(I)
    js = []
    ders = [n for n in voc if n not in rt.BASE_UNITS]
    for i in range(0, len(ders), 3): js.append({'name': f'base-{i}', 'kind': 'base', 'units': ders[i:i + 3]})
    for u in SWEEP_UNITS:
        for side in ('src', 'tgt'): js.append({'name': f'sweep-{u}-{side}', 'kind': 'sweep', 'unit': u, 'side': side})
    pairs = []
    for d, ns in dim_classes(I, voc).items():
        pairs += [(a, b) for a in ns for b in ns if a != b]
    pairs_all = list(pairs)
    rnd.shuffle(pairs)
    if tier == 'quick': pairs = pairs[:260]
    for i in range(0, len(pairs), 10): js.append({'name': f'pair-{i}', 'kind': 'pairs', 'pairs': pairs[i:i + 10]})
    B = ul.BASIS
    nprod = 60 if tier == 'quick' else 400
    shapes = []
    for _ in range(nprod):
        k = rnd.choice([2, 2, 3] if tier == 'quick' else [2, 3, 3, 4])
        shapes.append(rnd.sample(B, k))
    for i in range(0, len(shapes), 4): js.append({'name': f'prod-{i}', 'kind': 'product', 'shapes': shapes[i:i + 4]})
    # products of two DIFFERENT units of ONE dimension (day * week, foot^2 / inch): both must survive as separate factors
    twins = sorted({tuple(sorted(p)) for p in pairs_all})
    rnd.shuffle(twins)
    for i in range(0, len(twins), 4): js.append({'name': f'twin-{i}', 'kind': 'product', 'shapes': [list(t) for t in twins[i:i + 4]]})
    # the SAME derived unit on both sides with DIFFERENT powers (ft^2/m to ft): source = u^a * base(u)^(b-a), target = u^b
    SH = [(2, 1), (1, 2), (-1, 1), (1, -1), (2, -1), (3, 1), (1, 3), (-2, -1), (2, 3), (-1, 2)]
    shared = [(u, rnd.choice(SH)) for u in ders if U.dims_of(u)]
    if tier != 'quick': shared = [(u, ab) for u in ders if U.dims_of(u) for ab in SH]
    for i in range(0, len(shared), 6): js.append({'name': f'shared-{i}', 'kind': 'shared', 'items': [[u, list(ab)] for u, ab in shared[i:i + 6]]})
    # the same product on both sides with a different prefix on EVERY entry of source and target
    rep = []
    for _ in range(18 if tier == 'quick' else 100): rep.append(rnd.sample(B, 2 if tier == 'quick' else rnd.choice([2, 2, 2, 3])))
    for i in range(0, len(rep), 3): js.append({'name': f'reprefix-{i}', 'kind': 'reprefix', 'shapes': rep[i:i + 3]})
    chains = []
    for d, ns in dim_classes(I, voc).items():
        if len(ns) >= 3:
            for _ in range(3 if tier == 'quick' else 12): chains.append(rnd.sample(ns, 3))
    for i in range(0, len(chains), 6): js.append({'name': f'chain-{i}', 'kind': 'chain', 'chains': chains[i:i + 6]})
    return js

def run_job(job, res, prefixes, budget, deadline):
    I = harness.interp_for('dev', {'pow_bound': 80})
    k = job['kind']
    if k == 'base':
        for u in job['units']:
            base = [(b, e, 0) for b, e in sorted(U.dims_of(u).items())]
            convert_job(I, res, [u], [b for b, _, _ in base], 'to-base', deadline, tgt_fixed=base, pfx=FEW_PREFIXES)
            convert_job(I, res, [b for b, _, _ in base], [u], 'from-base', deadline, src_fixed=base, pfx=FEW_PREFIXES)
    elif k == 'sweep':
        u = ul.resolve(I, job['unit'])
        convert_job(I, res, [u], [u], 'same-class-pair', deadline, pfx=PREFIX_VALUES, sweep=job['side'])
    elif k == 'pairs':
        for a, b in job['pairs']: convert_job(I, res, [a], [b], 'same-class-pair', deadline, pfx=[0, 3])
    elif k == 'product':
        for sh in job['shapes']:
            units = [ul.resolve(I, n) for n in sh]
            # convert the product of the units (symbolic powers/prefixes) into its own base expansion and back
            convert_job(I, res, units, None, 'product', deadline, pfx=[0, 3], product=True)
    elif k == 'reprefix':
        for sh in job['shapes']: convert_job(I, res, [ul.resolve(I, n) for n in sh], None, 'product', deadline, pfx=[0, 3], reprefix=True)
    elif k == 'shared':
        for u, ab in job['items']: convert_job(I, res, [u], [u], 'shared-unit', deadline, pfx=[0, 3, -2], shared=tuple(ab))
    elif k == 'chain':
        for ch in job['chains']: chain_job(I, res, ch, deadline)

def run_factor(I, tgt, src, x):
    FACTOR = rt.find_fn(I, 'factor', contains='compound', nargs=3)
    cell = Cell(rt.rational(x))
    r = I.run_body(FACTOR, [VRef(Cell(rt.compound(I, tgt)), []), VRef(Cell(rt.compound(I, src)), []), VRef(cell, [])])
    return r, cell.val

def convert_job(I, res, src_units, tgt_units, tag, deadline, src_fixed=None, tgt_fixed=None, pfx=None, sweep=None, product=False, reprefix=False, shared=None):
    PREFIX_VALUES = pfx or FEW_PREFIXES
    def entry(I):
        x = z3.Real('x')
        if product:
            # prefix symbolic on the first entry only, powers in [-2,2]
            src = ul.sym_entries(I, src_units[:1], 's', -2, 2, prefixes=PREFIX_VALUES) + [(u, p, 0) for u, p, _ in ul.sym_entries(I, src_units[1:], 'r', -2, 2)]
        elif not shared:
            src = src_fixed or ul.sym_entries(I, src_units, 's', prefixes=PREFIX_VALUES if sweep != 'tgt' else [0, 3])
        if shared:
            a, b = shared
            u = src_units[0]
            f1 = z3.Int('shf'); f2 = z3.Int('tgf')
            I.assume(z3.Or([f1 == v for v in PREFIX_VALUES])); I.assume(z3.Or([f2 == v for v in PREFIX_VALUES]))
            src = [(u, a, f1)] + [(bb, e * (b - a), 0) for bb, e in sorted(U.dims_of(u).items())]
            tgt = [(u, b, f2)]
        elif reprefix:
            src = ul.sym_entries(I, src_units, 's', -1, 2, prefixes=PREFIX_VALUES)
            tgt = [(u, p, z3.Int(f'tf{i}')) for i, (u, p, _) in enumerate(src)]
            for _, _, f in tgt: I.assume(z3.Or([f == v for v in PREFIX_VALUES]))
        elif tgt_units is None:
            # target = base-SI expansion of the source with its symbolic powers: only possible when powers are concrete
            src = [(u, I.concretize(p, what='power'), f) for u, p, f in src]
            d = U.dims_of_compound([(u, p, 0) for u, p, _ in src])
            if not d: raise Infeasible()
            tgt = [(b, e, 0) for b, e in sorted(d.items())]
        elif tgt_fixed is not None:
            # scale the fixed expansion by the source power so that both sides stay commensurable
            p0 = src[0][1]
            tgt = [(b, e * p0, 0) for b, e, _ in tgt_fixed]
        elif src_fixed is not None:
            tgt = ul.sym_entries(I, tgt_units, 't', prefixes=PREFIX_VALUES)
            p0 = tgt[0][1]
            src = [(b, e * p0, 0) for b, e, _ in src_fixed]
        else:
            tgt = ul.sym_entries(I, tgt_units, 't', prefixes=PREFIX_VALUES if sweep != 'src' else [0, -3])
            if len(src) == 1 and len(tgt) == 1: I.assume(src[0][1] == tgt[0][1])
        I.path_state['in'] = (x, src, tgt)
        return run_factor(I, tgt, src, x)
    def on_path(I, out, res):
        kind, r = out
        x, src, tgt = I.path_state['in']
        def case(m):
            s = ul.conc_entries(m, src); t = ul.conc_entries(m, tgt)
            xv = rt.mval(m, x)
            c = ul.factor_case(I, t, s, xv)
            c.update({'src': ul.names_list(s), 'tgt': ul.names_list(t), 'x': str(xv), 'text': f'{rt.frac_str(xv)} {ul.spell_compound(s)} to {ul.spell_compound(t)}'})
            return c
        if kind == 'panic':
            rr, m = I.model_for(None)
            if m is not None: res['candidates'].append({'role': 'conversion-panics', 'case': case(m), 'detail': str(r)})
            return
        if kind != 'ok': return
        r, cell = r
        if r.variant != 'Ok' or r.items[0].v is not True:
            rr, m = I.model_for(None)
            res['obligations'] += 1
            res['candidates'].append({'role': 'commensurable-conversion-refused', 'case': case(m), 'detail': repr(r)})
            return
        val = mnum.rz(mnum.rat_arg(I, cell))
        ratio = ul.F_of(I, src) / ul.F_of(I, tgt)
        want = x * mnum.rz(ratio)
        def on_sat(m):
            res['candidates'].append({'role': 'conversion-factor', 'case': case(m), 'detail': f'code gives {rt.mval(m, val)}, multiplicative form gives {rt.mval(m, want)}'})
        if res.obligation(I, val != want, 'factor == x*F(src)/F(tgt)', on_sat) == 'unsat':
            res.witness(tag)
            if any(not (is_conc(f) and f == 0) for _, _, f in src + tgt): res.witness('prefix-exact')
            rr, m = (None, None)
            if any(abs(I.concretize(p)) > 1 for _, p, _ in src if True): res.witness('power-law')
        if len(res['samples']) < 3:
            res['samples'].append({'src': str([(u, str(p), str(f)) for u, p, f in src]), 'tgt': str([(u, str(p), str(f)) for u, p, f in tgt]),
                                   'result': str(z3.simplify(val)), 'obligation': 'result == x*F(src)/F(tgt)'})
    harness.explore(I, res, entry, on_path, None, 100000, deadline)

def chain_job(I, res, units, deadline):
    """a -> b -> c executed as two real conversions equals a -> c executed as one; and a -> b -> a is the identity"""
    a, b, c = units
    def entry(I):
        x = z3.Real('x'); p = z3.Int('p'); I.assume(z3.And(p >= -3, p <= 3, p != 0))
        fa, fb, fc = [z3.Int(n) for n in ('fa', 'fb', 'fc')]
        for f in (fa, fc): I.assume(z3.Or([f == v for v in (0, 3)]))
        I.assume(z3.Or(fb == 0, fb == -3))
        ea, eb, ec = [(a, p, fa)], [(b, p, fb)], [(c, p, fc)]
        r1, v1 = run_factor(I, eb, ea, x)
        r2, v2 = run_factor(I, ec, eb, mnum.rat_arg(I, v1))
        r3, v3 = run_factor(I, ec, ea, x)
        r4, v4 = run_factor(I, ea, eb, mnum.rat_arg(I, v1))
        I.path_state['in'] = (x, ea, eb, ec)
        return [r1, r2, r3, r4], [v1, v2, v3, v4]
    def on_path(I, out, res):
        kind, r = out
        if kind != 'ok': return
        rs, vs = r
        x, ea, eb, ec = I.path_state['in']
        if any(q.variant != 'Ok' or q.items[0].v is not True for q in rs):
            res['obligations'] += 1
            rr, m = I.model_for(None)
            res['candidates'].append({'role': 'chain-refused', 'case': dict(ul.factor_case(I, ul.conc_entries(m, eb), ul.conc_entries(m, ea), 1), chain=True), 'detail': repr(rs)})
            return
        v2 = mnum.rz(mnum.rat_arg(I, vs[1])); v3 = mnum.rz(mnum.rat_arg(I, vs[2])); v4 = mnum.rz(mnum.rat_arg(I, vs[3]))
        def on_sat(m):
            ca, cb, cc = [ul.conc_entries(m, e) for e in (ea, eb, ec)]
            xv = rt.mval(m, x)
            sa, sb, sc = [ul.spell_compound(e) for e in (ca, cb, cc)]
            res['candidates'].append({'role': 'chain-differs', 'case': {'op': 'chain', 'x': str(xv), 'a': ul.entries_json(I, ca), 'b': ul.entries_json(I, cb), 'c': ul.entries_json(I, cc),
                                                                         'text': f'{rt.frac_str(xv)} {sa} to {sb} to {sc}'},
                                      'detail': f'via={rt.mval(m, v2)} direct={rt.mval(m, v3)} back={rt.mval(m, v4)}'})
        if res.obligation(I, z3.Or(v2 != v3, v4 != x), 'a->b->c == a->c and a->b->a == id', on_sat) == 'unsat': res.witness('chain')
    harness.explore(I, res, entry, on_path, None, 100000, deadline)

# ---------------------------------------------------------------- replay
def fcase(t, s, x):
    v = Fraction(x); return {'op': 'factor', 'target': t, 'source': s, 'value': f'{v.numerator}/{v.denominator}'}
def confirm(c, outs):
    import replay_client
    case = c['case']
    for prof in outs:
        if case['op'] == 'chain':
            x = Fraction(case['x'])
            o1 = replay_client.run_profile([fcase(case['b'], case['a'], x), fcase(case['c'], case['a'], x)], prof)
            try: mid = rt.parse_frac(o1[0]['ok']['value']); direct = rt.parse_frac(o1[1]['ok']['value'])
            except (KeyError, TypeError): return True, f'{prof}: chain refused {o1}'
            o2 = replay_client.run_profile([fcase(case['c'], case['b'], mid), fcase(case['a'], case['b'], mid)], prof)
            try: via = rt.parse_frac(o2[0]['ok']['value']); back = rt.parse_frac(o2[1]['ok']['value'])
            except (KeyError, TypeError): return True, f'{prof}: chain refused {o2}'
            if via != direct: return True, f'{prof}: via intermediate {via} != direct {direct}'
            if back != x: return True, f'{prof}: there and back gives {back} instead of {x}'
            continue
        o = outs[prof]
        if 'panic' in o: return True, f'{prof}: panic {o["panic"]}'
        r = o.get('ok') or {}
        if r.get('refused') or r.get('commensurable') is False: return True, f'{prof}: commensurable conversion refused: {r}'
        if 'src' not in case: continue
        src = [tuple(e) for e in case['src']]; tgt = [tuple(e) for e in case['tgt']]
        want = Fraction(case['x']) * ul.decl_si_factor(src) / ul.decl_si_factor(tgt)
        got = rt.parse_frac(r['value'])
        if got != want: return True, f'{prof}: converted to {got}, the physical quantity is {want}'
    return False, 'real build agrees with the oracle'

def validate(tier, seed, report):
    from props import unitlib
    return unitlib.validate_kernels(seed, 80 if tier == 'quick' else 400, ops=('add', 'sub', 'mul', 'div'))

def known_match(k, c): return True

if __name__ == '__main__':
    sys.exit(harness.main(sys.modules[__name__]))
