"""C08  Printed decimals are faithful and never silently truncated.

<rational::display::Display as fmt::Display>::fmt with format_big, format_whole, emit (the from_fn closure) and digits
is executed from MIR (fmt::Formatter modelled as a list of output pieces, BigInt::to_string as a digit vector of forked
length tied to the value by a linear constraint) on the rational  +-(Q*d + R)/d :
    Q  the integer part, a SOLVER VARIABLE, 0 <= Q < 10^K          R  the remainder, a SOLVER VARIABLE, 0 <= R < d
    d  the denominator, concrete per job (grid)                     limit, exponent_limit concrete per job
so every long-division step 10*r = q*d + r' is linear integer arithmetic with a constant divisor.
Oracle (spec: read the printed pieces back): sign, digits, point, continuation mark, exponent are parsed from the
emitted pieces; with P the printed decimal, k its number of fraction digits and e its exponent, z3 proves
    every printed digit is in 0..9,   P*10^e <= |x| < (P + 10^-k)*10^e   (cut off toward zero at the last printed digit),
    '-' is printed iff x < 0,         the mark is printed iff |x| != P*10^e  (iff non-zero digits were cut off).
"""
import z3, sys, random, itertools
from fractions import Fraction
import harness, rt
from mirsym import *
from models import num as mnum
from models import fmt as mfmt

ID = 'C08'
PROFILES = ['dev']
REPLAY_PROFILES = ['dev', 'release']
TIME_LIMIT = {'quick': 900, 'thorough': 3300}
BUDGET = 150
FIRST_BUDGET = 40

def grid(tier, rnd):
    ds = list(range(1, 17)) + [20, 25, 32, 40, 50, 64, 100, 125, 1000, 7 * 11, 97, 101]
    if tier != 'quick':
        ds += list(range(17, 65)) + [80, 128, 250, 400, 625, 999, 1024, 3125, 10 ** 4, 10 ** 6] + [67, 71, 73, 79, 83, 89]
    return sorted(set(ds))

def jobs(tier, seed, report):
    rnd = random.Random(seed)
    K = 12 if tier == 'quick' else 18
    ds = grid(tier, rnd)
    lims = [1, 2, 3, 6] if tier == 'quick' else list(range(1, 21))
    els = [1, 2, 6, 8, 12] if tier == 'quick' else list(range(1, 16))
    combos = [(l, e) for l in lims for e in els]
    report.bounds = {'integer_part': f'solver variable, 0 <= Q < 10^{K}', 'remainder': 'solver variable, 0 <= R < d (every fraction with that denominator, reduced or not)', 'denominators': f'{len(ds)} concrete values: {ds[:45]}{"..." if len(ds) > 45 else ""}',
                     'limit_x_exponent_limit': f'{lims} x {els}; per denominator ' + ('a seeded sample of 5 combinations plus (6,8); the CLI setting (12,12) for d <= 16 and d in {25,100,1000}' if tier == 'quick' else 'a seeded sample of 10 combinations (limit <= 12 for d <= 64, <= 6 above) plus (6,8), and (12,12) for d <= 64 and d in {100,125,1000}'), 'sign': 'both', 'tiny_family': 'Q < 10 with denominators 3*10^7, 8*10^9, 7*10^15 (R symbolic): magnitudes down to 10^-16 (16*10^12 and 16*10^20 left z3 without an answer on branch feasibility and are not included)', 'magnitude': f'10^-(digits of d) .. 10^{K}'}
    report.outside = ['denominators outside the grid (the algorithm is uniform in d, but that is an argument, not a verdict)', f'integer parts of more than {K} digits', 'show_continuation = false']
    report.assumptions = ['BigInt exact (SMT Int); x / d and x - d*(x/d) for a concrete d are introduced as quotient/remainder witnesses x = q*d + r, 0 <= r < d', 'BigInt::to_string / Display = decimal digits', 'fmt::Formatter collects pieces in order', 'iterator adapters take/peekable/count/clone/any, from_fn']
    report.models_used = ['fmt', 'num', 'coll', 'core', 'strings']
    report.required_witnesses = ['whole-path', 'scientific-path', 'small-fraction-path', 'small-scientific-path', 'mark-present', 'mark-absent', 'negative']
    js = []
    for d in ds:
        cs = list(combos); rnd.shuffle(cs)
        if tier == 'quick':
            pick = cs[:5] + [(6, 8)] + ([(12, 12)] if d <= 16 or d in (25, 100, 1000) else [])
        else:
            pick = [c for c in cs if (d <= 64 and c[0] <= 12) or c[0] <= 6][:10] + [(6, 8)] + ([(12, 12)] if d <= 64 or d in (100, 125, 1000) else [])
        for (l, e) in dict.fromkeys(pick):
            js.append({'name': f'd{d}-l{l}-e{e}', 'd': d, 'limit': l, 'explimit': e, 'K': K})
    # tiny magnitudes: |x| < 10, denominators of 8 to 16 digits (0.000000000125 = 1/(8*10^9)): the small-fraction path with many
    # leading zeros and its scientific form
    tiny = [8 * 10 ** 9, 3 * 10 ** 7, 7 * 10 ** 15]
    tc = [(2, 6), (3, 12), (1, 1), (6, 8)]
    if tier == 'quick': tiny = tiny[:2]       # 7*10^15 costs minutes of solver time: thorough only
    for i, d in enumerate(tiny):
        for (l, e) in (tc[i % 2::2] if tier == 'quick' else tc):
            js.append({'name': f'tiny-d{d}-l{l}-e{e}', 'd': d, 'limit': l, 'explimit': e, 'K': 1})
    return js

def run_job(job, res, prefixes, budget, deadline):
    I = harness.interp_for('dev', {'digits_bound': job['K'] + 2, 'range_bound': 64})
    d = job['d']; K = job['K']
    FMT = rt.find_fn(I, 'fmt', contains="&display::Display<'_>")
    def entry(I):
        Q = z3.Int('Q'); R = z3.Int('R'); neg = z3.Bool('neg')
        I.assume(z3.And(Q >= 0, Q < 10 ** K, R >= 0, R < d))
        ng = I.branch(neg)
        A = Q * d + R
        if ng: I.assume(A > 0)
        N = -A if ng else A
        rat = VRat(mnum.rdiv(mnum.rz(N), d), nd=(N, d))
        spec = VStruct('display::DisplaySpec', [VInt(job['limit'], 'usize'), VInt(job['explimit'], 'usize'), VBool(True)])
        disp = VStruct('display::Display', [VRef(Cell(rat), []), VRef(Cell(spec), [])])
        f = mfmt.new_formatter()
        I.path_state['io'] = (Q, R, ng, f)
        return I.run_body(FMT, [VRef(Cell(disp), []), VRef(Cell(f), [])])
    def on_path(I, out, res):
        kind, r = out
        io = I.path_state.get('io')
        if io is None: return
        Q, R, ng, f = io
        def case(m=None):
            if m is None:
                rr, m = I.model_for(None)
                if m is None: return None
            q = rt.mval(m, Q); rr_ = rt.mval(m, R)
            n = (q * d + rr_) * (-1 if ng else 1)
            return {'op': 'display', 'n': str(n), 'd': str(d), 'limit': job['limit'], 'exponent_limit': job['explimit'], 'cont': True}
        def cand(role, detail, m=None):
            c = case(m)
            if c: res['candidates'].append({'role': role, 'case': c, 'detail': detail})
        res['obligations'] += 1
        if kind == 'panic': cand('display-panics', str(r)); return
        if kind != 'ok': return
        if r.variant != 'Ok': cand('fmt-error', 'Display::fmt returned Err'); return
        try: sign, ip, fr, mark, e = read_back(f.out)
        except ValueError as ex: cand('unreadable-output', f'{ex}: {show(f.out)}'); return
        res['discharged'] += 1
        X = mnum.rz(Q) + mnum.rz(R) / d
        k = len(fr)
        P = mnum.rz(ip)
        for i, dg in enumerate(fr): P = P + mnum.rz(dg) * mnum.rz(Fraction(1, 10 ** (i + 1)))
        scale = Fraction(10) ** e
        ulp = Fraction(1, 10 ** k) * scale
        digs = [x for x in ([ip] if e != 0 or k == 0 and False else []) + fr if not is_conc(x)]
        # digits in range (the integer part of the positional forms is a whole BigInt and only has to be >= 0)
        rng = zand(*[zand(x >= 0, x <= 9) for x in fr if not is_conc(x)] + ([zand(ip >= 0, ip <= 9)] if e != 0 and not is_conc(ip) else []) + ([ip >= 0] if not is_conc(ip) else []))
        res.obligation(I, znot(rng), 'printed digits are decimal digits', lambda m: cand('not-a-digit', show(f.out, m), m))
        Ps = P * mnum.rz(scale)
        st = res.obligation(I, z3.Or(Ps > X, X >= Ps + mnum.rz(ulp)), 'printed text is the value cut off toward zero at the last printed digit',
                            lambda m: cand('printed-value-not-truncation', f'printed {show(f.out, m)} for {rt.mval(m, X)}', m))
        res.obligation(I, (not mark) if False else (X == Ps if mark else X != Ps), 'continuation mark iff digits were cut off',
                       lambda m: cand('mark-wrong', f'printed {show(f.out, m)} for {rt.mval(m, X)} ({"spurious mark" if mark else "silent truncation"})', m))
        res['obligations'] += 1
        if sign != ng: cand('sign-wrong', f'printed {show(f.out)}')
        else: res['discharged'] += 1
        if st == 'unsat':
            if is_conc(ip) and ip == 0 and e == 0 and fr: res.witness('small-fraction-path')
            elif e > 0: res.witness('scientific-path')
            elif e < 0: res.witness('small-scientific-path')
            else: res.witness('whole-path')
            res.witness('mark-present' if mark else 'mark-absent')
            if ng: res.witness('negative')
        if len(res['samples']) < 5 and k >= 2:
            rr, m = I.model_for(None)
            if m is not None: res['samples'].append({'n_over_d': f'{case(m)["n"]}/{d}', 'limit': job['limit'], 'exponent_limit': job['explimit'], 'printed': show(f.out, m), 'obligations': ['digits 0..9', 'P <= |x| < P + ulp', 'mark iff |x| != P']})
    harness.explore(I, res, entry, on_path, prefixes, budget, deadline)

def piece_digit(p):
    """digit value of a piece or None"""
    if p[0] == 'int' and p[2] == 'u8': return p[1]
    if p[0] == 'ch':
        c = p[1]
        if is_conc(c): return c - 48 if 48 <= c <= 57 else None
        return c - 48
    return None

def read_back(out):
    """pieces -> (negative, integer part, [fraction digits], mark, exponent)"""
    ps = []
    for p in out:
        if p[0] == 'str':
            for ch in p[1]: ps.append(('ch', ord(ch)))
        else: ps.append(p)
    i = 0; sign = False
    if i < len(ps) and ps[i] == ('ch', 45): sign = True; i += 1
    if i >= len(ps): raise ValueError('no digits')
    if ps[i][0] == 'int' and ps[i][2] == 'BigInt': ip = ps[i][1]; i += 1
    else:
        dg = piece_digit(ps[i])
        if dg is None: raise ValueError('integer part missing')
        ip = dg; i += 1
        # a positional integer part written digit by digit does not occur in this formatter; a second digit before the point would be one
        if i < len(ps) and piece_digit(ps[i]) is not None and not (ps[i][0] == 'ch' and is_conc(ps[i][1]) and ps[i][1] == 46): raise ValueError('several digits before the point')
    fr = []
    if i < len(ps) and ps[i] == ('ch', 46):
        i += 1
        while i < len(ps) and piece_digit(ps[i]) is not None and ps[i] != ('ch', 0x2026): fr.append(piece_digit(ps[i])); i += 1
        if not fr: raise ValueError('point without digits')
    mark = False
    if i < len(ps) and ps[i] == ('ch', 0x2026): mark = True; i += 1
    e = 0
    if i < len(ps) and ps[i] == ('ch', 101):
        i += 1
        if i >= len(ps) or ps[i][0] != 'int' or not is_conc(ps[i][1]): raise ValueError('exponent missing or symbolic')
        e = ps[i][1]; i += 1
        if e == 0: raise ValueError('e0 printed')
    if i != len(ps): raise ValueError(f'trailing pieces {ps[i:]}')
    return sign, ip, fr, mark, e

def show(out, m=None):
    s = ''
    for p in out:
        if p[0] == 'str': s += p[1]
        elif p[0] == 'ch': s += chr(p[1]) if is_conc(p[1]) else (chr(rt.mval(m, p[1])) if m is not None else '?')
        else: s += str(p[1]) if is_conc(p[1]) else (str(rt.mval(m, p[1])) if m is not None else '#')
    return s

# ---------------------------------------------------------------- replay
def parse_text(t):
    import re
    mm = re.match(r'^(-?)(\d+)(?:\.(\d+))?(…?)(?:e(-?\d+))?$', t)
    if not mm: return None
    return mm.group(1) == '-', int(mm.group(2)), mm.group(3) or '', mm.group(4) == '…', int(mm.group(5) or 0)
def confirm(c, outs):
    case = c['case']
    x = Fraction(int(case['n']), int(case['d']))
    for prof, o in outs.items():
        if 'panic' in o: return True, f'{prof}: panic {o["panic"]}'
        t = o.get('ok')
        p = parse_text(t) if isinstance(t, str) else None
        if p is None: return True, f'{prof}: output {t!r} does not read as a decimal'
        sign, ip, fr, mark, e = p
        if e != 0 and ip > 9: return True, f'{prof}: {t!r}: several digits before the point in scientific notation'
        P = (Fraction(ip) + (Fraction(int(fr), 10 ** len(fr)) if fr else 0)) * Fraction(10) ** e
        ulp = Fraction(1, 10 ** len(fr)) * Fraction(10) ** e
        if not (P <= abs(x) < P + ulp): return True, f'{prof}: {t!r} is not {x} cut off at its last digit'
        if mark != (abs(x) != P): return True, f'{prof}: {t!r} for {x}: ' + ('continuation mark although nothing non-zero was cut off' if mark else 'digits cut off without the continuation mark')
        if sign != (x < 0): return True, f'{prof}: {t!r} has the wrong sign for {x}'
    return False, 'real build prints a faithful decimal'

def validate(tier, seed, report):
    """concrete rationals through the MIR interpreter (Display::fmt) and through the native Rational::display"""
    import replay_client
    rnd = random.Random(4000 + seed)
    I = harness.interp_for('dev', {'digits_bound': 40, 'range_bound': 64})
    FMT = rt.find_fn(I, 'fmt', contains="&display::Display<'_>")
    cases = []
    for _ in range(120 if tier == 'quick' else 800):
        d = rnd.choice([1, 2, 3, 4, 7, 8, 9, 16, 25, 40, 97, 125, 1000, 1415])
        n = rnd.choice([1, -1]) * rnd.randint(0, 10 ** rnd.randint(0, 14))
        cases.append((n, d, rnd.randint(1, 12), rnd.randint(1, 12)))
    outs = replay_client.run_profile([{'op': 'display', 'n': str(n), 'd': str(d), 'limit': l, 'exponent_limit': e, 'cont': True} for n, d, l, e in cases], 'dev')
    okc = 0
    for (n, d, l, e), o in zip(cases, outs):
        I.reset([])
        q = Fraction(n, d)
        rat = VRat(q, nd=(q.numerator, q.denominator))
        spec = VStruct('display::DisplaySpec', [VInt(l, 'usize'), VInt(e, 'usize'), VBool(True)])
        f = mfmt.new_formatter()
        try: I.run_body(FMT, [VRef(Cell(VStruct('display::Display', [VRef(Cell(rat), []), VRef(Cell(spec), [])])), []), VRef(Cell(f), [])])
        except PathEnd as ex:
            if ex.kind == 'panic' and 'panic' in o: okc += 1; continue
            raise RuntimeError(f'translator validation: {n}/{d} limit {l}/{e}: interpreter {ex.kind} {ex.info}, native {o}')
        if show(f.out) != o.get('ok'): raise RuntimeError(f'translator validation: {n}/{d} limit {l}/{e}: interpreter prints {show(f.out)!r}, native {o}')
        okc += 1
    return okc

def known_match(k, c): return True

if __name__ == '__main__':
    sys.exit(harness.main(sys.modules[__name__]))
