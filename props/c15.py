"""C15  The on-disk index always recovers to the shipped data.

Db::open_inner(false), open_index, config::open, config::try_read and Config::write_meta are executed from MIR against an
ABSTRACT DISK as environment (the documented contracts of the calls that touch it):
    meta.json :  absent | garbage | {version in {current, other, none}, database_hash in {current, other, none}}
    index dir :  absent | unopenable (a directory tantivy cannot open) | committed(content in {empty, other, current})
    Index::open_in_dir opens only a committed index; remove_dir_all / create_dir_all / Index::create_in_dir give an empty
    committed index; IndexWriter::{delete_all_documents, add_document} only fill the writer's buffer; commit publishes
    the buffer; IndexReader serves what was committed at its last reload; File::create truncates meta.json (garbage
    until serde_json::to_writer has written it); hash_assets / CARGO_PKG_VERSION are "current".
SOLVER VARIABLES: the initial disk state (all combinations except "metadata current but index committed with other
content", which no correct history produces and the invariant below excludes), and for each of up to three consecutive
starts the CRASH POINT: the environment call after which the process dies (or none).
Asserted on every path: (1) a start that returns serves exactly the current content (what the in-memory database
serves); it never fails; (2) after EVERY environment call the disk satisfies  metadata == (current, current)  =>
index is not an openable index with other content  -- the index is never recorded as current before it is completely committed; (3) hence
every start after any crash sequence ends in (1).
Counterexamples are replayed with the cfg(anything_verif) crash points: the replay helper prepares the directory, kills
child processes at the chosen points and compares the answers of the final start with the in-memory database.
"""
import z3, sys, re, itertools
import harness, rt
from mirsym import *
from models import M as MODELS
from models import coll
from models.core import some, none, ok, err, deref
from models.strings import StrS, gs, sref

ID = 'C15'
PROFILES = ['dev']
REPLAY_PROFILES = ['dev']
TIME_LIMIT = {'quick': 600, 'thorough': 1500}
BUDGET = 150
FIRST_BUDGET = 60
REPLAY_TIMEOUT = 240
MAX_REPLAY_PER_ROLE = 4

ASSETS = ['astronomics.bin.gz', 'sources.bin.gz', 'files.bin.gz']
CUR = frozenset(a for a in ASSETS if a != 'sources.bin.gz')
META0 = ['absent', 'garbage'] + [('valid', v, h) for v in ('cur', 'other', 'none') for h in ('cur', 'other', 'none')]
INDEX0 = ['absent', 'broken', ('ok', 'empty'), ('ok', 'other'), ('ok', 'cur')]

class Crash(Exception): pass

def invariant(disk):
    """metadata that claims the current data next to an OPENABLE index with other content is the state no start can
    recover from (a missing or unopenable index is noticed and rebuilt)"""
    return not (disk['meta'] == ('valid', 'cur', 'cur') and isinstance(disk['index'], tuple) and disk['index'][1] != 'cur')

_inst = False
def install(I):
    global _inst
    if _inst: return
    _inst = True
    def E(I): return I.path_state['env']
    def M(pat):
        def deco(fn): MODELS.insert(0, (re.compile(pat), fn)); return fn
        return deco
    def step(I, name):
        """an environment call that is a possible crash point: record the disk, check the invariant, maybe die"""
        e = E(I)
        e['trace'].append((e['start'], name, e['disk']['meta'], e['disk']['index']))
        if not invariant(e['disk']): e['broken'].append((e['start'], name, dict(e['disk'])))
        k = e['k']; e['k'] = k + 1
        if e['crash_at'] is not None and k == e['crash_at']:
            occ = sum(1 for t in e['trace'] if t[0] == e['start'] and t[1] == name)
            e['crashed_after'] = f'{name}#{occ}'
            raise PathEnd('crash', name)
    # --- logging off
    @M(r'^<(?:log::)?Level as PartialOrd<(?:log::)?LevelFilter>>::le$')
    def log_le(I, m, a, dt): return VBool(False)
    # --- directories / paths
    @M(r'^(?:directories::)?ProjectDirs::from$')
    def pd_from(I, m, a, dt): return some(VObj('projectdirs'))
    @M(r'^(?:directories::)?ProjectDirs::data_dir$')
    def pd_data(I, m, a, dt): return VRef(Cell(VObj('path', name='data')), [])
    @M(r'^(?:std::path::)?Path::join::<&str>$')
    def path_join(I, m, a, dt): return VObj('path', name=gs(I, a[1]).text())
    @M(r'^<(?:std::path::)?PathBuf as (?:std::ops::)?Deref>::deref$')
    def pathbuf_deref(I, m, a, dt): return a[0]
    @M(r'^(?:std::path::)?Path::is_file$')
    def path_is_file(I, m, a, dt):
        p = deref(I, a[0]); return VBool(p.name == 'meta.json' and E(I)['disk']['meta'] != 'absent')
    @M(r'^(?:std::path::)?Path::is_dir$')
    def path_is_dir(I, m, a, dt):
        p = deref(I, a[0]); return VBool(p.name == 'index' and E(I)['disk']['index'] != 'absent')
    # --- meta.json
    @M(r'^(?:std::fs::)?File::open::<.*>$')
    def file_open(I, m, a, dt):
        if E(I)['disk']['meta'] == 'absent': return err(VObj('ioerror'))
        return ok(VObj('file', mode='r'))
    @M(r'^serde_json::from_reader::<(?:std::fs::)?File, (?:config::)?Meta>$')
    def meta_read(I, m, a, dt):
        d = E(I)['disk']['meta']
        if d in ('absent', 'garbage'): return err(VObj('jsonerror'))
        def opt(x, cur): return none() if x == 'none' else some(StrS.from_text(cur if x == 'cur' else x))
        return ok(VStruct('config::Meta', [opt(d[1], E(I)['version']), opt(d[2], 'cur')]))
    @M(r'^(?:std::fs::)?File::create::<.*>$')
    def file_create(I, m, a, dt):
        E(I)['disk']['meta'] = 'garbage'        # created / truncated, nothing written yet
        step(I, 'meta-created')
        return ok(VObj('file', mode='w'))
    @M(r'^serde_json::to_writer::<(?:std::fs::)?File, (?:config::)?Meta>$')
    def meta_write(I, m, a, dt):
        meta = deref(I, a[1])
        def val(o):
            o = deref(I, o)
            return 'none' if o.variant == 'None' else gs(I, o.items[0]).text()
        ver = val(meta.items[0])
        E(I)['disk']['meta'] = ('valid', 'cur' if ver == E(I)['version'] else ver, val(meta.items[1]))
        step(I, 'meta-written')
        return ok(VUnit())
    @M(r'^(?:std::fs::)?remove_file::<.*>$')
    def rm_file(I, m, a, dt):
        E(I)['disk']['meta'] = 'absent'; step(I, 'meta-removed'); return ok(VUnit())
    @M(r'^(?:config::)?Config::hash_assets$')
    def hash_assets(I, m, a, dt): return StrS.from_text('cur')
    @M(r'^<&str as PartialEq<(?:std::string::)?String>>::(eq|ne)$|^<&str as PartialEq>::(eq|ne)$')
    def str_string_ne(I, m, a, dt):
        x = gs(I, a[0]).text(); y = gs(I, a[1]).text(); op = m.group(1) or m.group(2)
        return VBool((x == y) == (op == 'eq'))
    @M(r'^(?:std::option::)?Option::<(?:std::string::)?String>::as_deref$')
    def opt_string_as_deref(I, m, a, dt):
        o = deref(I, a[0])
        return none() if o.variant == 'None' else some(sref(gs(I, o.items[0])))
    # --- tantivy
    @M(r'^build_schema$|^(?:db::)?build_schema$')
    def schema(I, m, a, dt): return VObj('schema')
    @M(r'^(?:tantivy::)?Index::create_in_ram$')
    def create_in_ram(I, m, a, dt): return VObj('tindex', where='ram', content='empty')
    @M(r'^(?:tantivy::)?Index::open_in_dir::<.*>$')
    def open_in_dir(I, m, a, dt):
        d = E(I)['disk']['index']
        if isinstance(d, tuple): return ok(VObj('tindex', where='dir'))
        return err(VObj('tantivyerror'))
    @M(r'^(?:std::fs::)?remove_dir_all::<.*>$')
    def rm_all(I, m, a, dt):
        E(I)['disk']['index'] = 'absent'; step(I, 'index-dir-removed'); return ok(VUnit())
    @M(r'^(?:std::fs::)?create_dir_all::<.*>$')
    def mk_all(I, m, a, dt):
        if E(I)['disk']['index'] == 'absent': E(I)['disk']['index'] = 'broken'      # an empty directory is not an index yet
        step(I, 'index-dir-created'); return ok(VUnit())
    @M(r'^(?:tantivy::)?Index::create_in_dir::<.*>$')
    def create_in_dir(I, m, a, dt):
        E(I)['disk']['index'] = ('ok', 'empty'); step(I, 'index-created'); return ok(VObj('tindex', where='dir'))
    @M(r'^(?:tantivy::tokenizer::)?NgramTokenizer::new$|^<(?:tantivy::tokenizer::)?TextAnalyzer as From<.*>>::from$|^(?:tantivy::tokenizer::)?TextAnalyzer::filter::<.*>$|^(?:tantivy::)?Index::tokenizers$|^(?:tantivy::tokenizer::)?TokenizerManager::register::<.*>$')
    def tokenizer(I, m, a, dt): return VObj('opaque') if not m.group(0).endswith('register::<TextAnalyzer>') else VUnit()
    @M(r'^(?:tantivy::)?Index::schema$')
    def index_schema(I, m, a, dt): return VObj('schema')
    @M(r'^(?:tantivy::schema::)?Schema::get_field$')
    def get_field(I, m, a, dt): return some(VObj('field', name=gs(I, a[1]).text()))
    @M(r'^(?:tantivy::)?Index::reader_builder$|^(?:tantivy::)?IndexReaderBuilder::reload_policy$')
    def reader_builder(I, m, a, dt):
        d = deref(I, a[0]); return d if d.kind == 'rbuilder' else VObj('rbuilder', index=d)
    def committed(I, ix): return E(I)['disk']['index'][1] if ix.where == 'dir' else ix.content
    @M(r'^(?:tantivy::)?IndexReaderBuilder::try_into$')
    def reader_try_into(I, m, a, dt):
        ix = a[0].index; return ok(VObj('treader', index=ix, view=committed(I, ix)))
    @M(r'^(?:tantivy::)?IndexReader::reload$')
    def reader_reload(I, m, a, dt):
        r = deref(I, a[0]); r.view = committed(I, r.index); step(I, 'reader-reloaded'); return ok(VUnit())
    @M(r'^(?:tantivy::)?Index::writer$')
    def index_writer(I, m, a, dt): return ok(VObj('twriter', index=deref(I, a[0]), ops=[]))
    @M(r'^(?:tantivy::)?IndexWriter::delete_all_documents$')
    def delete_all(I, m, a, dt):
        deref(I, a[0]).ops.append('clear'); step(I, 'delete-all-buffered'); return ok(VInt(0, 'u64'))
    @M(r'^(?:db::)?Db::load_bytes$')
    def db_load_bytes(I, m, a, dt):
        w = deref(I, a[1]); w.ops.append(('add', deref(I, a[2]).name)); step(I, 'asset-buffered'); return ok(VUnit())
    @M(r'^(?:tantivy::)?IndexWriter::commit$')
    def commit(I, m, a, dt):
        w = deref(I, a[0]); ix = w.index
        base = committed(I, ix)
        # what is committed so far, as a set of assets where that is known ('other': foreign documents; 'partial' / 'mixed' stay opaque)
        content = {'empty': frozenset(), 'cur': CUR}.get(base, base)
        for opn in w.ops:
            if opn == 'clear': content = frozenset()
            else:
                if not isinstance(content, frozenset): content = ('mixed', content)
                else: content = content | {opn[1]}
        if isinstance(content, frozenset): content = 'cur' if content == CUR else ('empty' if not content else 'partial')
        elif isinstance(content, tuple): content = 'mixed'
        w.ops = []
        if ix.where == 'dir': E(I)['disk']['index'] = ('ok', content)
        else: ix.content = content
        step(I, 'committed'); return ok(VInt(1, 'u64'))
    # --- assets
    @M(r'^(?:config::)?Config::assets$')
    def assets(I, m, a, dt): return VObj('veciter', items=[VEnum('Cow', 'Borrowed', [sref(StrS.from_text(n))]) for n in ASSETS], pos=0, end=None)
    @M(r'^(?:config::)?Config::get_asset$')
    def get_asset(I, m, a, dt):
        n = gs(I, a[1]).text()
        return some(VStruct('EmbeddedFile', [VEnum('Cow', 'Borrowed', [VRef(Cell(VObj('bytes_of', name=n)), [])]), VObj('metadata')]))
    @M(r"^<(?:std::borrow::)?Cow<'_, \[u8\]> as AsRef<\[u8\]>>::as_ref$")
    def cow_bytes(I, m, a, dt): return deref(I, a[0]).items[0]
    @M(r"^<(?:std::borrow::)?Cow<'_, str> as PartialEq<&str>>::(eq|ne)$")
    def cow_eq(I, m, a, dt):
        x = gs(I, deref(I, a[0]).items[0]).text(); y = gs(I, a[1]).text()
        return VBool((x == y) == (m.group(1) == 'eq'))
    @M(r'^(?:db::)?load_bytes::<.*>$')
    def load_sources(I, m, a, dt): return ok(VObj('sources'))
    @M(r'^<(?:db::)?Sources as Default>::default$')
    def sources_default(I, m, a, dt): return VObj('sources')
    @M(r'^<(?:std::result::)?Result<.*> as (?:anyhow::)?Context<.*>>::(with_context|context)::<.*>$')
    def with_context(I, m, a, dt): return a[0]
    @M(r'^<str as ToOwned>::to_owned$')
    def str_to_owned(I, m, a, dt): return StrS.from_text(gs(I, a[0]).text())
    I.model_cache.clear()

def jobs(tier, seed, report):
    inits = [(m, x) for m in META0 for x in INDEX0 if invariant({'meta': m, 'index': x})]
    report.bounds = {'initial_disk_states': f'{len(inits)} (all combinations of {len(META0)} metadata states and {len(INDEX0)} index states that satisfy the invariant)', 'starts': '3 consecutive starts (thorough: 4)', 'crashes': 'each start but the last dies after a solver-chosen environment call or completes', 'assets': ASSETS}
    report.outside = ['tantivy\'s own crash atomicity inside commit', 'real file-system semantics (fsync, partial writes of meta.json beyond "created but not yet written")', 'several instances running concurrently', 'the in-memory database (no disk state)']
    report.assumptions = ['environment contracts listed in the module docstring', 'hash_assets and the package version identify the shipped data ("current")']
    report.models_used = ['core', 'coll', 'strings', 'c15 environment model (abstract disk)']
    report.required_witnesses = ['start-serves-current', 'rebuild-performed', 'no-rebuild-needed', 'crash-then-recover', 'crash-between-commit-and-meta', 'garbage-meta-recovered', 'missing-index-recovered']
    return [{'name': f'init-{i}', 'meta': m, 'index': x, 'starts': 3 if tier == 'quick' else 4} for i, (m, x) in enumerate(inits)]

def run_job(job, res, prefixes, budget, deadline):
    I = harness.interp_for('dev', {'c15_starts': job.get('starts', 3)})
    install(I)
    OPEN = rt.find_fn(I, 'open_inner', contains='db')
    def entry(I):
        disk = {'meta': job['meta'], 'index': job['index']}
        env = {'disk': disk, 'trace': [], 'broken': [], 'k': 0, 'crash_at': None, 'start': 0, 'outcomes': [], 'crashes': [], 'version': gs(I, I.const('config::VERSION')).text()}
        I.path_state['env'] = env
        nstarts = I.params.get('c15_starts', 3)
        for s in range(nstarts):
            env['start'] = s; env['k'] = 0; env['crashed_after'] = None
            if s < nstarts - 1:
                c = z3.Int(f'crash{s}'); I.assume(z3.And(c >= -1, c <= 14))
                cv = I.concretize(c, limit=20, what='crash point')
                env['crash_at'] = None if cv < 0 else cv
            else: env['crash_at'] = None
            try:
                r = I.run_body(OPEN, [VBool(False)])
                if env['crash_at'] is not None: raise Infeasible()      # the chosen crash point lies beyond the end of this start
                env['outcomes'].append(('returned', r)); env['crashes'].append(None)
            except PathEnd as e:
                if e.kind != 'crash': raise
                env['outcomes'].append(('crashed', env['crashed_after'])); env['crashes'].append(env['crash_at'])
        return env
    def on_path(I, out, res):
        kind, env = out
        e0 = I.path_state.get('env')
        if e0 is None: return
        def case():
            return {'op': 'open_sequence', 'meta': job['meta'] if isinstance(job['meta'], str) else list(job['meta']), 'index': job['index'] if isinstance(job['index'], str) else list(job['index']),
                    'crashes': [c for c in e0['crashes']] + [None] * (4 - len(e0['crashes'])), 'crash_names': [o[1] if o[0] == 'crashed' else None for o in e0['outcomes']], 'scratch': harness.CACHE_DIR + '/c15-scratch'}
        def cand(role, detail): res['candidates'].append({'role': role, 'case': case(), 'detail': detail})
        res['obligations'] += 1
        if kind == 'panic': cand('open-panics', str(env)); return
        if kind != 'ok': return
        for o in env['outcomes']:
            if o[0] != 'returned': continue
            r = o[1]
            if r.variant != 'Ok': cand('start-fails', 'Db::open returned Err'); return
            db = r.items[0]
            view = db.items[2].view
            if view != 'cur': cand('serves-other-than-shipped-data', f'reader serves {view!r}; disk {env["disk"]}; trace {env["trace"][-6:]}'); return
        if env['broken']: cand('recorded-current-before-commit', f'after {env["broken"][0][1]} in start {env["broken"][0][0]}: {env["broken"][0][2]}'); return
        res['discharged'] += 1
        res.witness('start-serves-current')
        names = [t[1] for t in env['trace']]
        if 'committed' in names: res.witness('rebuild-performed')
        else: res.witness('no-rebuild-needed')
        if any(o[0] == 'crashed' for o in env['outcomes']): res.witness('crash-then-recover')
        if any(o[0] == 'crashed' and o[1].split('#')[0] in ('committed', 'reader-reloaded', 'meta-created') for o in env['outcomes']): res.witness('crash-between-commit-and-meta')
        if job['meta'] == 'garbage': res.witness('garbage-meta-recovered')
        if job['index'] in ('absent', 'broken'): res.witness('missing-index-recovered')
        if len(res['samples']) < 4 and any(o[0] == 'crashed' for o in env['outcomes']):
            res['samples'].append({'initial': [job['meta'], job['index']], 'starts': [o[0] + (':' + o[1] if o[0] == 'crashed' else '') for o in env['outcomes']], 'final_disk': [env['disk']['meta'], env['disk']['index']], 'env_calls': len(env['trace'])})
    harness.explore(I, res, entry, on_path, prefixes, budget, deadline)

# ---------------------------------------------------------------- replay
def confirm(c, outs):
    for prof, o in outs.items():
        if 'panic' in o: return True, f'{prof}: {o["panic"]}'
        if 'hang' in o: return False, 'replay timed out'
        r = o.get('ok')
        if r is None: return False, f'replay helper could not realise the case: {o}'
        if r.get('unrealisable'): return False, 'initial state or crash point cannot be realised on the real build'
        for i, st in enumerate(r.get('starts', [])):
            if st.get('crash') is None:
                if st.get('answers') is None: return True, f'{prof}: start {i + 1} fails: {st.get("error")}'
                if st['answers'] != r['expected']: return True, f'{prof}: start {i + 1} (from meta={c["case"]["meta"]} index={c["case"]["index"]}, earlier crashes {c["case"]["crash_names"][:i]}) answers {st["answers"]} instead of {r["expected"]}'
        if not r['final_start_ok']: return True, f'{prof}: the final start fails: {r.get("error")}'
        if r['answers'] != r['expected']: return True, f'{prof}: after {c["case"]["crash_names"]} from meta={c["case"]["meta"]} index={c["case"]["index"]} the tool answers {r["answers"]} instead of {r["expected"]}'
        if r.get('meta_current_before_commit'): return True, f'{prof}: meta.json claimed the current data while the index did not serve it'
    return False, 'real build recovers'

def validate(tier, seed, report):
    """Environment-model validation: sequences the abstract disk model decides (on a correct tree: every one recovers) are
    realised on the real build -- including the openable-index-with-foreign-content state and crash points -- and the native
    outcome must agree with the model's; a disagreement makes the run inconclusive rather than trusted."""
    import replay_client
    seqs = [(['valid', 'cur', 'other'], ['ok', 'other'], [None, None, None]),
            ('absent', 'absent', ['committed#1', None, None]),
            ('garbage', 'broken', ['index-dir-removed#1', 'asset-buffered#2', None]),
            (['valid', 'cur', 'cur'], ['ok', 'cur'], [None, None, None])]
    if tier != 'quick':
        seqs += [(['valid', 'other', 'cur'], ['ok', 'other'], ['delete-all-buffered#1', None, None]), ('absent', ['ok', 'empty'], [None, 'reader-reloaded#1', None])]
    cases = [{'op': 'open_sequence', 'meta': m, 'index': x, 'crashes': [None] * 4, 'crash_names': cn, 'scratch': harness.CACHE_DIR + '/c15-validate'} for m, x, cn in seqs]
    outs = replay_client.run_profile(cases, 'dev', timeout=REPLAY_TIMEOUT * len(cases))
    n = 0
    for c, o in zip(cases, outs):
        r = o.get('ok') if isinstance(o, dict) else None
        if r is None: raise RuntimeError(f'C15 validation: helper could not run {c}: {o}')
        if r.get('unrealisable'): continue
        bad, why = confirm({'case': c}, {'dev': o})
        if bad: report.total['inconclusive'].append(f'environment-model validation: the real build does not recover in a sequence the main run must explain: {why[:300]}')
        n += 1
    return n

def known_match(k, c): return True

if __name__ == '__main__':
    sys.exit(harness.main(sys.modules[__name__]))
