"""C06  Operator precedence, associativity and grouping are respected; blank layout does not matter.

Lexer::next, Parser::{nth, count_skip, skip, eat, bump, bump_node, close_at, checkpoint}, grammar::{root, operation,
operand, op, value, unit, call_arguments} (over the syntree builder model), the Query iterator and eval::eval are
executed from MIR on query templates whose OPERATOR CHARACTERS and BLANK CHARACTERS are solver variables and whose
literal values are unbounded symbolic rationals:
  * arithmetic templates  L0 o1 L1 o2 L2 (o3 L3)  with every set of non-crossing parenthesised groups (nesting <= 2),
    under many blank layouts: per gap 0 / 1 / 2 blanks (each blank symbolic over space/tab; thorough: also U+00A0,
    U+2003), leading and trailing blanks; a gap without blank next to an operator restricts that operator to * / ^
    (the property only promises blank-free spelling there);
  * cast templates        L0 m o1 L1 cm to U   (+ and - bind tighter than `to`),  L0 km to m to cm (left to right);
  * call templates        round(L0 o1 L1 o2 L2),  floor(L0 o1 L1) o2 L2,  round(L0 o1 L1 , 2), with blank layouts
    around parentheses and commas.
Oracles: (1) the real syntax tree, read back as an expression tree (same-priority chains folded left to right, as the
evaluator does), equals the reference parse of the token list (spec/exprs.py: ^ > * / > + - > to, left associative);
(2) for arithmetic and cast templates the VALUE equals the reference evaluation for all literal values: a
mis-grouping is a satisfiable disequality and the model is the numbers that expose it.  Exactly one result per query.
Counterexamples are rendered as text and replayed (query and tree) on the native dev and release builds.
"""
import z3, sys, random, itertools
from fractions import Fraction
import harness, rt, qrun, ratfun
from mirsym import *
from models import num as mnum
from spec import exprs as X, units as U
from props import exprlib as el, c01

ID = 'C06'
PROFILES = ['dev']
REPLAY_PROFILES = ['dev', 'release']
TIME_LIMIT = {'quick': 900, 'thorough': 3300}
BUDGET = 120
FIRST_BUDGET = 60

UNIT_SI = {'m': ('Meter', 0), 'cm': ('Meter', -2), 'km': ('Meter', 3), 'mm': ('Meter', -3)}

def layouts(tokens, rnd, count, tier):
    """blank layouts for a token list: list of gap vectors.  Entry k: blanks before token k; last entry: trailing."""
    n = len(tokens)
    def signlike(t):
        return t[0] == 'op' and ((t[1] is not None and t[1] in '+-') or (t[1] is None and set(t[2]) <= set('+-')))
    def may_be_tight(i):
        # gap between token i-1 and i may be empty?
        if i == 0 or i == n: return True
        a, b = tokens[i - 1], tokens[i]
        if signlike(a) or signlike(b): return False       # a sign glued to a literal is part of the literal
        if a[0] == 'call': return True
        if b[0] in ('unit',) and a[0] == 'leaf': return True
        if a[0] == 'op' and a[1] == 'to' or b[0] == 'op' and b[1] == 'to': return False
        if b[0] == 'unit' or a[0] == 'unit': return False
        return True
    def must_be_tight(i):
        if i == 0 or i == n: return False
        a, b = tokens[i - 1], tokens[i]
        return a[0] == 'call' and b[0] == 'lp'
    def mk(f):
        return [0 if must_be_tight(i) else max(f(i), 0 if may_be_tight(i) else 1) for i in range(n + 1)]
    out = [mk(lambda i: 0 if i in (0, n) else 1), mk(lambda i: 0), mk(lambda i: 2), mk(lambda i: 1 if i in (0, n) else 0), mk(lambda i: 2 if i in (0, n) else 1)]
    # one gap at a time opened / closed
    for i in range(1, n):
        out.append(mk(lambda j: 0 if j in (0, n) else (0 if j == i else 1)))
        out.append(mk(lambda j: 0 if j in (0, n) else (2 if j == i else 0)))
    seen = set(); uniq = []
    for g in out:
        if tuple(g) not in seen: seen.add(tuple(g)); uniq.append(g)
    base = uniq[:5]; rest = uniq[5:]
    rnd.shuffle(rest)
    pick = base + rest[:max(0, count - len(base))]
    while len(pick) < count:
        g = mk(lambda i: rnd.choice([0, 0, 1, 1, 2]))
        if tuple(g) not in seen: seen.add(tuple(g)); pick.append(g)
    return pick

def restrict_ops(tokens, gaps):
    """an operator with an empty gap on either side is restricted to * / ^"""
    toks = list(tokens)
    for i, t in enumerate(toks):
        if t[0] == 'op' and t[1] is None:
            if gaps[i] == 0 or gaps[i + 1] == 0: toks[i] = ('op', None, '*/^')
    return toks

def unicode_gaps(gaps, rnd):
    return [g if g == 0 else rnd.choice([' ', ' ', ' ', ' \t', '\t', '  '])[:max(1, g)] if isinstance(g, int) else g for g in gaps]

def jobs(tier, seed, report):
    rnd = random.Random(seed)
    report.bounds = {'arithmetic': '2..3 operands (thorough: ..4; five operands only as the three restricted chains below) with symbolic operators, every parenthesisation of nesting <= 2 (4+ operands: seeded sample)',
                     'blank_layouts': 'per template the 5 uniform layouts (single blanks, none where permitted, doubled, leading/trailing) + seeded one-gap variations; blank characters symbolic over space/tab' + ('; Unicode blanks U+00A0/U+2003 in a concrete variant' if tier != 'quick' else ''),
                     'casts': 'two quantities in m/cm/km/mm combined by symbolic + or -, then `to` a unit; chained casts', 'calls': 'round/floor/ceil with 1-2 arguments holding 2..3-operand expressions, followed by a further operator',
                     'literal_values': 'unbounded symbolic rationals; exponents integers in [-2,2]'}
    report.outside = ['+ and - without surrounding blanks (the lexer reads the sign into the number; the property does not promise it)', 'deeper expressions', 'brace escapes {..}']
    report.assumptions = ['BigRational exact (SMT Real)', 'literal reader cut at the literal span (C07)', 'syntree builder/tree model', 'units of the cast templates: SI factor from spec/units.py']
    report.models_used = ['num', 'core', 'coll', 'strings', 'tree', 'logosrt']
    report.required_witnesses = ['tree-matches-reference', 'value-matches-reference', 'tight-layout', 'wide-layout', 'leading-trailing-blanks', 'cast-binds-loosest', 'call-argument-grouping', 'parenthesised-right-operand', 'three-precedence-levels']
    js = []
    nlay = 8 if tier == 'quick' else 14
    for n in ([2, 3] if tier == 'quick' else [2, 3, 4]):
        shapes = c01.paren_sets(n)
        if n >= 4: rnd.shuffle(shapes); shapes = shapes[:6 if n == 4 else 3]
        for si, ps in enumerate(shapes):
            toks = c01.tokens_for(n, ps)
            for li, g in enumerate(layouts(toks, rnd, nlay if n <= 3 else (3 if n == 4 else 2), tier)):
                js.append({'name': f'arith-n{n}-p{si}-l{li}', 'kind': 'arith', 'tokens': restrict_ops(toks, g), 'gaps': g, 'n': n, **({'exp_bound': 2 if n == 4 else 1} if n >= 4 else {})})
            if tier != 'quick' and n <= 3:
                for li, g in enumerate(layouts(toks, rnd, 3, tier)[2:3] + layouts(toks, rnd, 9, tier)[7:9]):
                    gg = [x if x == 0 else rnd.choice([' ', ' ', '  ', '\t ']) for x in g]
                    js.append({'name': f'arith-n{n}-p{si}-u{li}', 'kind': 'arith', 'tokens': restrict_ops(toks, g), 'gaps': gg, 'n': n})
    if True:      # both tiers
        js.append({'name': 'arith-n4-flat', 'kind': 'arith', 'tokens': c01.tokens_for(4, ()), 'gaps': None, 'n': 4, 'exp_bound': 2})
        # five operands: three precedence levels open, then an operator that drops one or two of them
        for fi, al in enumerate((['+-', '*/', '^', '+-*/'], ['*/', '^', '+-*/', '+-*/'], ['+-', '^', '*/', '+-'])):
            js.append({'name': f'arith-n5-flat{fi}', 'kind': 'arith', 'tokens': c01.tokens_for(5, (), allowed=al), 'gaps': None, 'n': 5, 'exp_bound': 1})
    # single literal / fully parenthesised literal with outer blanks
    for li, g in enumerate([[0, 0], [1, 1], [2, 0], [0, 2]]):
        js.append({'name': f'single-l{li}', 'kind': 'arith', 'tokens': [('leaf', 0)], 'gaps': g, 'n': 1})
    for li, g in enumerate([[0, 0, 0, 0], [1, 1, 1, 1], [0, 1, 0, 0], [0, 0, 1, 0], [2, 0, 0, 2]]):
        js.append({'name': f'paren-single-l{li}', 'kind': 'arith', 'tokens': [('lp',), ('leaf', 0), ('rp',)], 'gaps': g, 'n': 1})
    js.append({'name': 'paren-nested', 'kind': 'arith', 'tokens': [('lp',), ('lp',), ('leaf', 0), ('rp',), ('op', None, '+-*/^'), ('leaf', 1), ('rp',)], 'gaps': [0, 0, 0, 0, 1, 1, 0, 0], 'n': 2})
    # casts
    units = ['m', 'cm', 'km', 'mm']
    cs = []
    for a, b, t in itertools.product(units, units, units): cs.append((a, b, t))
    rnd.shuffle(cs)
    for ci, (a, b, t) in enumerate(cs[:6 if tier == 'quick' else 30]):
        toks = [('leaf', 0), ('unit', a), ('op', None, '+-'), ('leaf', 1), ('unit', b), ('op', 'to'), ('unit', t)]
        for li, g in enumerate(layouts(toks, rnd, 3, tier)[:3]):
            js.append({'name': f'cast-{a}-{b}-{t}-l{li}', 'kind': 'cast', 'tokens': toks, 'gaps': g})
    for ci, (a, b, t) in enumerate(cs[6:9 if tier == 'quick' else 20]):
        toks = [('leaf', 0), ('unit', a), ('op', 'to'), ('unit', b), ('op', 'to'), ('unit', t)]
        js.append({'name': f'cast2-{a}-{b}-{t}', 'kind': 'cast', 'tokens': toks, 'gaps': None})
        toks = [('leaf', 0), ('op', None, '*/'), ('leaf', 1), ('unit', a), ('op', None, '+-'), ('leaf', 2), ('unit', b), ('op', 'to'), ('unit', t)]
        js.append({'name': f'cast3-{a}-{b}-{t}', 'kind': 'cast', 'tokens': toks, 'gaps': None})
    # calls
    for fn in (['round', 'floor'] if tier == 'quick' else ['round', 'floor', 'ceil']):
        t1 = [('call', fn), ('lp',), ('leaf', 0), ('op', None, '+-*/'), ('leaf', 1), ('op', None, '+-*/'), ('leaf', 2), ('rp',)]
        t2 = [('call', fn), ('lp',), ('leaf', 0), ('op', None, '+-*/'), ('leaf', 1), ('rp',), ('op', None, '+-*/^'), ('leaf', 2)]
        t3 = [('leaf', 0), ('op', None, '+-*/'), ('call', fn), ('lp',), ('leaf', 1), ('op', None, '+-*/'), ('leaf', 2), ('rp',)]
        tl = [t1, t2, t3]
        if fn == 'round':
            tl.append([('call', fn), ('lp',), ('leaf', 0), ('op', None, '+-*/'), ('leaf', 1), ('comma',), ('leaf', 2), ('rp',), ('op', None, '+-*/'), ('leaf', 3)])
        for ti, toks in enumerate(tl):
            for li, g in enumerate(layouts(toks, rnd, (8 if tier == 'quick' else 12) if ti < 3 else 40, tier)):
                js.append({'name': f'call-{fn}-{ti}-l{li}', 'kind': 'call', 'tokens': restrict_ops(toks, g), 'gaps': g})
    return js

def run_job(job, res, prefixes, budget, deadline):
    I = harness.interp_for('dev', {'pow_bound': 40})
    tpl = el.Template([tuple(t) for t in job['tokens']], job['gaps'], name=job['name'])
    def entry(I):
        s, info = el.build(I, tpl, exp_bound=job.get('exp_bound', 2))
        I.path_state['s'] = s; I.path_state['info'] = info
        I.path_state['leaves'] = {span: info['leaves'][li][0] for span, li in info['leafspan'].items()}
        return qrun.run_query(I, s, evaluate=(job['kind'] != 'call'))     # calls: tree shape only (rounding is C10's subject)
    def on_path(I, out, res):
        check_path(I, out, res, tpl, job)
    harness.explore(I, res, entry, on_path, prefixes, budget, deadline)

def byte_spans(s, info):
    """leaf spans in byte offsets (tree spans are bytes; template spans are chars)"""
    off = [0]
    for c, w in s.chars: off.append(off[-1] + w)
    return {(off[a], off[b]): li for (a, b), li in info['leafspan'].items()}, off

def check_path(I, out, res, tpl, job):
    kind, r = out
    info = I.path_state.get('info')
    if info is None or kind not in ('ok', 'panic'): return
    toks = el.concrete_tokens(I, tpl, info)
    s = I.path_state['s']
    def cand(role, detail, m=None):
        if m is None:
            rr, m = I.model_for(None)
            if m is None: return
        case = c01.make_case(I, m, tpl, toks); case['kind'] = job['kind']
        res['candidates'].append({'role': role, 'case': case, 'detail': detail})
    res['obligations'] += 1
    if kind == 'panic': cand('panic', str(r)); return
    if r.parse.variant != 'Ok': cand('parse-failed', 'parse_root returned Err'); return
    ref = X.parse(toks)
    bspan, off = byte_spans(s, info)
    def text_of(a, b):
        i = off.index(a); j = off.index(b)
        return ''.join(chr(c.v) if is_conc(c.v) else '?' for c, _ in s.chars[i:j])
    roots = [n for n in el.nodes_of_model(r.tree.t) if not n.token]
    asts = [el.to_ast(n, text_of, bspan) for n in roots]
    if len(asts) != 1 or asts[0] != ref:
        cand('tree-differs-from-grammar', f'real tree reads {[X.show(a) if a[0] != "error" else a for a in asts]}, grammar says {X.show(ref)}'); return
    res['discharged'] += 1
    res.witness('tree-matches-reference')
    gaps = tpl.gaps
    inner = [g for g in gaps[1:-1]]
    if inner and all((g == 0 or g == '') for i, g in enumerate(inner)): res.witness('tight-layout')
    if any((isinstance(g, int) and g >= 2) or (isinstance(g, str) and len(g) >= 2) for g in inner): res.witness('wide-layout')
    if gaps[0] or gaps[-1]: res.witness('leading-trailing-blanks')
    opsseq = [t[1] for t in toks if t[0] == 'op']
    if len({X.PRIO[c] for c in opsseq}) >= 3: res.witness('three-precedence-levels')
    for i, t in enumerate(toks):
        if t[0] == 'lp' and i > 0 and toks[i - 1][0] == 'op': res.witness('parenthesised-right-operand')
    if job['kind'] == 'call':
        res.witness('call-argument-grouping')
        return
    res['obligations'] += 1
    if len(r.results) != 1: cand('result-count', f'{len(r.results)} results for one expression: {[x.variant for x in r.results]}'); return
    res['discharged'] += 1
    x = r.results[0]
    if job['kind'] == 'arith':
        c01.check_path(I, out, res, tpl, 'dev')
        if x.variant == 'Ok': res.witness('value-matches-reference')
        return
    # cast templates: SI value of the result equals the SI value of the reference tree, result carries the target unit
    leaf = lambda i: info['leaves'][i][0]
    try: si_ref, target, eref = si_value(ref, leaf)
    except RefDimError as e:
        res['obligations'] += 1
        if x.variant == 'Ok': cand('dimension-error-accepted', str(e))
        else: res['discharged'] += 1
        return
    if x.variant == 'Err':
        ek = qrun.err_kind(x)
        if ek == 'DivideByZero':
            res.obligation(I, znot(eref), 'DivideByZero only when the reference divides by zero', lambda m: cand('spurious-divide-by-zero', X.show(ref), m)); return
        res['obligations'] += 1; cand('cast-refused', f'{ek} for {X.show(ref)}'); return
    num = x.items[0]
    v = mnum.rat_arg(I, num.items[0]); R = rt.read_compound(I, num.items[1])
    Rc = [(u, I.concretize(p, what='power'), I.concretize(f, what='prefix')) for u, p, f in R]
    res['obligations'] += 1
    want = UNIT_SI[target]
    if Rc != [(want[0], 1, want[1])]: cand('cast-result-unit', f'result unit {Rc}, expected {target}'); return
    res['discharged'] += 1
    fr = U.si_factor(Rc)
    res.obligation(I, eref, 'a division by zero never yields a number', lambda m: cand('divide-by-zero-yields-number', X.show(ref), m))
    if not (is_conc(eref) and not eref):
        if I.check(znot(eref)) != z3.sat: return
        I.assume(znot(eref))
    st = res.obligation(I, znot(mnum.req(mnum.rmul(v, fr), si_ref)), 'SI value of the cast result', lambda m: cand('cast-wrong-value', f'got {rt.mval(m, v)} {target}, SI value should be {rt.mval(m, mnum.rz(si_ref))}', m))
    if st == 'unsat': res.witness('cast-binds-loosest'); res.witness('value-matches-reference')

class RefDimError(Exception): pass
def si_value(ast, leaf):
    """reference SI value (metres), displayed unit and division-by-zero condition of a cast-template AST; lengths only"""
    def ev(a):
        k = a[0]
        if k == 'leaf':
            v = leaf(a[1])
            if a[3] is None: return v, 0, False
            u = UNIT_SI[a[3]]
            return mnum.rmul(v, Fraction(10) ** u[1]), 1, False
        if k == 'cast':
            v, d, e = ev(a[1])
            if d != 1: raise RefDimError('cast of a non-length')
            return v, 1, e
        if k == 'bin':
            (x, dx, ex), (y, dy, ey) = ev(a[2]), ev(a[3]); op = a[1]; e = zor(ex, ey)
            if op in '+-':
                if dx != dy: raise RefDimError('adding different dimensions')
                return (mnum.radd(x, y) if op == '+' else mnum.rsub(x, y)), dx, e
            if op == '*': return mnum.rmul(x, y), dx + dy, e
            if op == '/':
                if mnum.is_c(x) and mnum.is_c(y): return (Fraction(x) / Fraction(y) if y != 0 else Fraction(0)), dx - dy, zor(e, y == 0)
                return mnum.rz(x) / mnum.rz(y), dx - dy, zor(e, mnum.req(y, 0))
        raise RefDimError('unsupported ' + X.show(a))
    v, d, e = ev(ast)
    t = ast[2] if ast[0] == 'cast' else None
    if t is None or d != 1: raise RefDimError('template does not end in a length cast')
    return v, t, e

# ---------------------------------------------------------------- replay
def confirm(c, outs):
    case = c['case']
    role = c.get('role')
    if case.get('kind') == 'arith' and role not in ('tree-differs-from-grammar',):
        return c01.confirm(c, outs)
    toks = [tuple(t) for t in case['tokens']]
    ref = X.parse(toks)
    import replay_client
    text = case['text']
    # tree shape on the real build
    trees = replay_client.run_cases([{'op': 'tree', 'text': text}], profiles=REPLAY_PROFILES)[0]
    # leaf spans in the rendered text: recomputed by scanning the rendered literals in order
    for prof, o in trees.items():
        rows = o.get('ok')
        if rows is None: return True, f'{prof}: parse failed: {o}'
        roots = [n for n in el.nodes_of_rows(rows) if not n.token]
        tb = text.encode()
        def text_of(a, b): return tb[a:b].decode(errors='replace')
        lits = {}
        asts = [ast_by_text(n, text_of) for n in roots]
        refl = ast_literal(ref, {int(k): Fraction(v) for k, v in case['leaves'].items()})
        if len(asts) != 1 or asts[0] != refl:
            return True, f'{prof}: real tree reads {asts}, grammar says {refl}'
    for prof, o in outs.items():
        if 'panic' in o: return True, f'{prof}: panic {o["panic"]}'
        rs = o.get('ok')
        if not isinstance(rs, list) or len(rs) != 1: return True, f'{prof}: {o}'
    if case.get('kind') == 'cast':
        leaves = {int(k): Fraction(v) for k, v in case['leaves'].items()}
        try: si_ref, target, ez = si_value(ref, lambda i: leaves[i])
        except RefDimError: return False, 'dimension error expected'
        if ez: return False, 'division by zero case'
        for prof, o in outs.items():
            r = o['ok'][0]
            if 'err' in r: return True, f'{prof}: error {r["err"]}'
            got = rt.parse_frac(r['ok']['value'])
            want = UNIT_SI[target]
            if r['ok']['unit'] != [[want[0], 1, want[1]]] or got * Fraction(10) ** want[1] != si_ref:
                return True, f'{prof}: got {got} {r["ok"]["unit_text"]}, SI value should be {si_ref} displayed in {target}'
    return False, 'real build agrees with the grammar'

def ast_by_text(n, text_of):
    """real tree -> AST with literal TEXT at the leaves (replay side, where leaf spans are not known in advance)"""
    k = n.kind
    inner = [c for c in n.kids if not c.token]
    if k == 'OPERATION':
        acc = ast_by_text(inner[0], text_of); i = 1
        while i + 1 < len(inner):
            op = el.OP_OF_KIND.get(inner[i].kind, inner[i].kind)
            if op == 'to': acc = ('cast', acc, text_of(inner[i + 1].start, inner[i + 1].end).strip())
            else: acc = ('bin', op, acc, ast_by_text(inner[i + 1], text_of))
            i += 2
        return acc if i >= len(inner) else ('error', 'dangling operator')
    if k in ('NUMBER', 'PERCENTAGE', 'WITH_UNIT'):
        first = n.kids[0] if n.kids else n
        unit = None
        if k == 'WITH_UNIT':
            us = [c for c in n.kids if c.kind == 'UNIT']; unit = text_of(us[0].start, us[0].end).strip() if us else '?'
        return ('leaf', text_of(first.start, first.end), k == 'PERCENTAGE', unit)
    if k == 'FN_CALL':
        name = [c for c in n.kids if c.kind == 'FN_NAME']; args = [c for c in n.kids if c.kind == 'FN_ARGUMENTS']
        return ('call', text_of(name[0].start, name[0].end), [ast_by_text(a, text_of) for a in args[0].kids if not a.token]) if name and args else ('error', 'call')
    return ('error', k)
def ast_literal(ast, leaves):
    k = ast[0]
    if k == 'leaf':
        t = c01.lit(leaves[ast[1]])
        if t.startswith('('):
            q = leaves[ast[1]]
            return ('bin', '/', ('leaf', str(q.numerator), False, None), ('leaf', str(q.denominator), False, None)) if not ast[2] and not ast[3] else ('leaf', t, ast[2], ast[3])
        return ('leaf', t, ast[2], ast[3])
    if k == 'bin': return ('bin', ast[1], ast_literal(ast[2], leaves), ast_literal(ast[3], leaves))
    if k == 'cast': return ('cast', ast_literal(ast[1], leaves), ast[2])
    return ('call', ast[1], [ast_literal(a, leaves) for a in ast[2]])

def validate(tier, seed, report):
    from props import exprlib
    return exprlib.validate_pipeline(seed, 60 if tier == 'quick' else 300)

def known_match(k, c): return True

if __name__ == '__main__':
    sys.exit(harness.main(sys.modules[__name__]))
