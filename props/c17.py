"""C17  Stored facts and units survive serialisation unchanged (the part that is code of /repo).

Executed from MIR, with the serde FORMAT side as an environment (a Serializer that records events, a Deserializer /
MapAccess that hands out prepared values; engine/models/serde.py):
  (ids)      generated::ids::id_to_derived on a SYMBOLIC u32: Some(d) => d.id == id (all 2^32 identifiers); for every
             `static ..: Derived` found in the MIR: id_to_derived(U.id) is Some(U) with the same vtable -- together:
             identifiers are unique, the table is total on the unit set, and a unit written by its id reads back as itself.
  (derived)  <Derived as Serialize>::serialize emits exactly the u32 id; <Derived as Deserialize>::deserialize of a
             symbolic u32 returns the unit with that id or an error, never another unit.
  (rational) <Rational as Serialize / Deserialize> forward the BigRational unchanged.
  (derive)   the serde_derive output for State, Compound and Unit (part of the crate's MIR; Unit also through its generated
             visit_enum: the variant index selects exactly the variant serialize numbers so): serialize emits the complete
             struct / map / variant event sequence for symbolic powers and prefixes, nothing skipped or reordered;
             the generated visit_map of State and Compound rebuilds exactly the value the format delivers.
Counterexamples are replayed as serde_cbor / serde_json round trips on the native builds.
"""
import z3, sys
from fractions import Fraction
import harness, rt
from mirsym import *
from models import num as mnum, serde as ms
from models.core import some, none, ok, err, deref
from models.coll import MapV
from props import unitlib as ul

ID = 'C17'
PROFILES = ['dev']
REPLAY_PROFILES = ['dev', 'release']
TIME_LIMIT = {'quick': 600, 'thorough': 900}
BUDGET = 200
FIRST_BUDGET = 400
CUNITS = ['Meter', 'Second', 'KiloGram', 'units::NEWTON', 'energy::JOULE', 'units::SIEVERT', 'units::GRAY', 'temperature::CELSIUS']

def jobs(tier, seed, report):
    report.bounds = {'identifiers': 'all 2^32 values (one symbolic u32) and every Derived static of the MIR', 'compounds': 'up to 3 entries over ' + str(CUNITS) + ' with symbolic powers (any non-zero i32) and prefixes (any i32)', 'rationals': 'an unbounded symbolic rational'}
    report.outside = ['that serde_cbor / serde_json / num\'s own Serialize and Deserialize impls round-trip (library code, modelled as "delivers what was written")', 'the derive output for Constant', 'decoding of the shipped db/*.bin.gz files (concrete data, no symbolic content)']
    report.assumptions = ['serde data model environment (engine/models/serde.py)', 'BTreeMap model ordered by the crate\'s own Ord for Unit']
    report.models_used = ['serde', 'coll', 'core', 'num']
    report.required_witnesses = ['id-decodes-to-itself', 'static-id-total', 'derived-serialises-id', 'derived-deserialise-exact', 'rational-forwarded', 'state-events', 'compound-events', 'compound-rebuilt', 'state-rebuilt', 'unit-variant-events', 'unit-variant-rebuilt']
    js = [{'name': 'ids-forall', 'kind': 'ids'}, {'name': 'ids-statics', 'kind': 'statics'}, {'name': 'derived-ser', 'kind': 'derived_ser'}, {'name': 'derived-de', 'kind': 'derived_de'},
          {'name': 'rational', 'kind': 'rational'}, {'name': 'state', 'kind': 'state'}, {'name': 'unit-ser', 'kind': 'unit_ser'}, {'name': 'unit-de', 'kind': 'unit_de'}]
    import itertools
    shapes = [()] + [(u,) for u in CUNITS] + [c for c in itertools.combinations(CUNITS, 2)][:12 if tier == 'quick' else 28] + [('Meter', 'Second', 'units::NEWTON'), ('KiloGram', 'units::SIEVERT', 'units::GRAY')]
    for i, sh in enumerate(shapes): js.append({'name': f'compound-{i}', 'kind': 'compound', 'units': list(sh)})
    return js

def find_body(I, suffix, argsub):
    out = []
    for k, bl in I.bodies.items():
        if k.endswith('::' + suffix):
            for b in bl:
                if b.kind == 'fn' and b.args and argsub in b.args[0][1]: out.append(b)
    if len(out) != 1: raise Unsupported(f'find_body {suffix} ({argsub}): {len(out)} candidates')
    return out[0]

def sym_entries(I, units):
    ents = []
    for i, u in enumerate(units):
        p = z3.Int(f'p{i}'); f = z3.Int(f'f{i}')
        I.assume(z3.And(p >= -2 ** 31, p <= 2 ** 31 - 1, p != 0, f >= -2 ** 31, f <= 2 ** 31 - 1))
        ents.append((ul.resolve(I, u), p, f))
    return ents

def unit_events(I, name):
    if name in rt.BASE_UNITS:
        idx = I.enums['Unit'][name]
        return [('unit_variant', 'Unit', idx, name)]
    return [('newtype_variant', 'Unit', I.enums['Unit']['Derived'], 'Derived'), ('u32', int(I.get_static(name).val.items[0].v))]

def events_equal(got, want):
    """structural comparison; returns a condition (python bool or z3) that all payloads agree, or False on shape mismatch"""
    if len(got) != len(want): return False
    conds = []
    for g, w in zip(got, want):
        if len(g) != len(w) or g[0] != w[0]: return False
        for a, b in zip(g[1:], w[1:]):
            if is_conc(a) and is_conc(b) or isinstance(a, str) or isinstance(b, str):
                if a != b: return False
            else: conds.append(a == b)
    return zand(*conds) if conds else True

def run_job(job, res, prefixes, budget, deadline):
    I = harness.interp_for('dev')
    k = job['kind']
    def run(entry, on_path): harness.explore(I, res, entry, on_path, None, 100000, deadline)
    def cand(role, case, detail): res['candidates'].append({'role': role, 'case': case, 'detail': detail})
    if k == 'ids':
        def entry(I):
            i = z3.Int('id'); I.assume(z3.And(i >= 0, i < 2 ** 32)); I.path_state['id'] = i
            return I.call('generated::ids::id_to_derived', [VInt(i, 'u32')])
        def on_path(I, out, res):
            kind, r = out
            if kind != 'ok': return
            i = I.path_state['id']
            if r.variant == 'None': res['obligations'] += 1; res['discharged'] += 1; return
            d = r.items[0]
            if res.obligation(I, d.items[0].v != i, 'id_to_derived(id).id == id', lambda m: cand('id-maps-to-other-unit', {'op': 'unit_id', 'id': rt.mval(m, i)}, f'decodes to unit {d.items[0].v}')) == 'unsat': res.witness('id-decodes-to-itself')
            if len(res['samples']) < 3: res['samples'].append({'id': str(z3.simplify(i)) if not is_conc(i) else i, 'path_condition': [str(c)[:60] for c in I.pc[-1:]], 'decodes_to_id': d.items[0].v})
        run(entry, on_path)
    elif k == 'statics':
        names = rt.derived_statics(I)
        seen = {}
        for n in names:
            U = I.get_static(n).val
            uid = U.items[0].v
            res['obligations'] += 1; res['paths'] += 1
            case = {'op': 'unit_id', 'id': int(uid), 'unit': n}
            if uid in seen: cand('duplicate-identifier', case, f'{n} and {seen[uid]} share the identifier {uid}'); continue
            seen[uid] = n
            I.reset([])
            r = I.call('generated::ids::id_to_derived', [VInt(uid, 'u32')])
            if r.variant != 'Some': cand('identifier-not-in-table', case, f'{n} (id {uid}) does not decode'); continue
            d = r.items[0]
            if d.items[0].v != uid or d.items[1].cell is not U.items[1].cell: cand('identifier-decodes-to-other-unit', case, f'{n} (id {uid}) decodes to the unit with id {d.items[0].v} / another vtable'); continue
            res['discharged'] += 1; res.witness('static-id-total')
        res['samples'].append({'statics': len(names), 'distinct_ids': len(seen)})
    elif k == 'derived_ser':
        SER = find_body(I, 'serialize', '&Derived')
        for n in rt.derived_statics(I)[:6]:
            def entry(I):
                s = ms.new_serializer(); I.path_state['s'] = s
                return I.run_body(SER, [VRef(I.get_static(n), []), VRef(Cell(s), [])])
            def on_path(I, out, res):
                kind, r = out
                if kind != 'ok': return
                res['obligations'] += 1
                ev = I.path_state['s'].events; uid = I.get_static(n).val.items[0].v
                if r.variant != 'Ok' or ev != [('u32', uid)]: cand('derived-serialises-something-else', {'op': 'unit_id', 'id': int(uid), 'unit': n}, f'events {ev}'); return
                res['discharged'] += 1; res.witness('derived-serialises-id')
            run(entry, on_path)
    elif k == 'derived_de':
        DE = [b for bl in I.bodies.values() for b in bl if b.kind == 'fn' and b.name.endswith('::deserialize') and 'src/unit.rs' in b.name and b.ret and 'Derived' in b.ret][0]
        def entry(I):
            i = z3.Int('id'); I.assume(z3.And(i >= 0, i < 2 ** 32)); I.path_state['id'] = i
            return I.run_body(DE, [ms.deser(VInt(i, 'u32'))])
        def on_path(I, out, res):
            kind, r = out
            if kind != 'ok': return
            i = I.path_state['id']
            if r.variant == 'Err': res['obligations'] += 1; res['discharged'] += 1; return
            d = r.items[0]
            if res.obligation(I, d.items[0].v != i, 'deserialised unit has the delivered id', lambda m: cand('id-maps-to-other-unit', {'op': 'unit_id', 'id': rt.mval(m, i)}, f'decodes to {d.items[0].v}')) == 'unsat': res.witness('derived-deserialise-exact')
        run(entry, on_path)
    elif k == 'rational':
        bodies = [b for bl in I.bodies.values() for b in bl if b.kind == 'fn' and 'src/rational/mod.rs' in b.name]
        SER = [b for b in bodies if b.name.endswith('::serialize')][0]; DE = [b for b in bodies if b.name.endswith('::deserialize')][0]
        def entry(I):
            x = z3.Real('x'); s = ms.new_serializer(); I.path_state['io'] = (x, s)
            a = I.run_body(SER, [VRef(Cell(rt.rational(x)), []), VRef(Cell(s), [])])
            b = I.run_body(DE, [ms.deser(VRat(x))])
            return a, b
        def on_path(I, out, res):
            kind, r = out
            if kind != 'ok': return
            x, s = I.path_state['io']; a, b = r
            res['obligations'] += 1
            case = lambda m: {'op': 'cbor_roundtrip', 'numeric': {'value': str(Fraction(rt.mval(m, x)).numerator) + '/' + str(Fraction(rt.mval(m, x)).denominator), 'unit': []}}
            if a.variant != 'Ok' or len(s.events) != 1 or s.events[0][0] != 'ratio' or b.variant != 'Ok':
                rr, m = I.model_for(None); cand('rational-not-forwarded', case(m), f'{a.variant} {s.events} {b.variant}'); return
            res['discharged'] += 1
            bad = z3.Or(mnum.rz(s.events[0][1]) != x, mnum.rz(mnum.rat_arg(I, b.items[0])) != x)
            if res.obligation(I, bad, 'the BigRational is passed through unchanged', lambda m: cand('rational-changed', case(m), '')) == 'unsat': res.witness('rational-forwarded')
        run(entry, on_path)
    elif k == 'state':
        SER = find_body(I, 'serialize', '&State')
        VM = [b for bl in I.bodies.values() for b in bl if b.kind == 'fn' and b.name.endswith('::visit_map') and 'for State>::deserialize::__Visitor' in b.args[0][1]][0]
        for order in ((0, 1), (1, 0)):
            def entry(I):
                p = z3.Int('p'); f = z3.Int('f'); I.assume(z3.And(p >= -2 ** 31, p < 2 ** 31, f >= -2 ** 31, f < 2 ** 31))
                s = ms.new_serializer(); I.path_state['io'] = (p, f, s)
                a = I.run_body(SER, [VRef(Cell(rt.state(p, f)), []), VRef(Cell(s), [])])
                vals = {0: VInt(p, 'i32'), 1: VInt(f, 'i32')}
                b = I.run_body(VM, [VStruct('__Visitor', []), VRef(Cell(VObj('mapaccess', items=[(i, vals[i]) for i in order], pos=0)), [])])
                return a, b
            def on_path(I, out, res):
                kind, r = out
                if kind != 'ok': return
                p, f, s = I.path_state['io']; a, b = r
                res['obligations'] += 1
                case = lambda m: {'op': 'cbor_roundtrip', 'numeric': {'value': '1/1', 'unit': [['Meter', rt.mval(m, p) or 1, rt.mval(m, f)]]}}
                want = [('struct', 'State', 2), ('field', 'power'), ('i32', p), ('field', 'prefix'), ('i32', f), ('end',)]
                eq = events_equal(s.events, want)
                if a.variant != 'Ok' or eq is False:
                    rr, m = I.model_for(None); cand('state-events-differ', case(m), f'{s.events}'); return
                if b.variant != 'Ok':
                    rr, m = I.model_for(None); cand('state-not-rebuilt', case(m), repr(b)); return
                res['discharged'] += 1
                if res.obligation(I, znot(eq), 'State serialises power and prefix', lambda m: cand('state-events-differ', case(m), str(s.events))) == 'unsat': res.witness('state-events')
                st = b.items[0]
                if res.obligation(I, z3.Or(st.items[0].v != p, st.items[1].v != f), 'visit_map rebuilds the State that was delivered', lambda m: cand('state-not-rebuilt', case(m), repr(st))) == 'unsat': res.witness('state-rebuilt')
            run(entry, on_path)
    elif k == 'unit_de':
        # the generated visit_enum: the variant index the format delivers selects exactly the variant that serialize numbers so
        VE = [b for bl in I.bodies.values() for b in bl if b.kind == 'fn' and b.name.endswith('::visit_enum') and 'for unit::Unit>::deserialize::__Visitor' in b.args[0][1]][0]
        table = I.enums['Unit']
        def entry(I):
            i = z3.Int('variant'); I.assume(z3.And(i >= 0, i < len(table)))
            iv = I.concretize(i, limit=len(table) + 1, what='variant index')
            uid = z3.Int('id'); I.assume(z3.And(uid >= 0, uid < 2 ** 32))
            I.path_state['io'] = (iv, uid)
            return I.run_body(VE, [VStruct('__Visitor', []), VObj('enumaccess', index=iv, payload=VInt(uid, 'u32'))])
        def on_path(I, out, res):
            kind, r = out
            if kind != 'ok': return
            iv, uid = I.path_state['io']
            name = [n for n, j in table.items() if j == iv][0]
            res['obligations'] += 1
            if r.variant == 'Err':
                if name == 'Derived': res['discharged'] += 1        # unknown identifier: refused, fine
                else: cand('unit-variant-not-rebuilt', {'op': 'cbor_roundtrip', 'numeric': {'value': '1/1', 'unit': [[name, 1, 0]]}}, f'variant {iv} ({name}) is refused')
                return
            u = r.items[0]
            if u.variant != name: cand('unit-variant-not-rebuilt', {'op': 'cbor_roundtrip', 'numeric': {'value': '1/1', 'unit': [[name, 1, 0]] if name != 'Derived' else []}}, f'variant index {iv} ({name}) decodes to {u.variant}'); return
            res['discharged'] += 1
            if name == 'Derived':
                res.obligation(I, u.items[0].items[0].v != uid, 'the Derived payload is the unit with the delivered id', lambda m: cand('id-maps-to-other-unit', {'op': 'unit_id', 'id': rt.mval(m, uid)}, ''))
            res.witness('unit-variant-rebuilt')
        run(entry, on_path)
    elif k == 'unit_ser':
        SER = find_body(I, 'serialize', '&unit::Unit') if False else [b for bl in I.bodies.values() for b in bl if b.kind == 'fn' and b.name.endswith('::serialize') and b.args and b.args[0][1].strip() in ('&unit::Unit', '&Unit')][0]
        for n in rt.BASE_UNITS + rt.derived_statics(I)[:5]:
            def entry(I):
                s = ms.new_serializer(); I.path_state['s'] = s
                return I.run_body(SER, [VRef(Cell(rt.unit_val(I, n)), []), VRef(Cell(s), [])])
            def on_path(I, out, res):
                kind, r = out
                if kind != 'ok': return
                res['obligations'] += 1
                if r.variant != 'Ok' or I.path_state['s'].events != unit_events(I, n): cand('unit-events-differ', {'op': 'cbor_roundtrip', 'numeric': {'value': '1/1', 'unit': ul.entries_json(I, [(n, 1, 0)])}}, str(I.path_state['s'].events)); return
                res['discharged'] += 1; res.witness('unit-variant-events')
            run(entry, on_path)
    else:
        SER = find_body(I, 'serialize', '&compound::Compound')
        VM = [b for bl in I.bodies.values() for b in bl if b.kind == 'fn' and b.name.endswith('::visit_map') and 'for compound::Compound>::deserialize::__Visitor' in b.args[0][1]][0]
        def entry(I):
            ents = sym_entries(I, job['units'])
            c = rt.compound(I, ents); s = ms.new_serializer()
            I.path_state['io'] = (ents, s)
            a = I.run_body(SER, [VRef(Cell(c), []), VRef(Cell(s), [])])
            delivered = rt.compound(I, ents).items[0]
            b = I.run_body(VM, [VStruct('__Visitor', []), VRef(Cell(VObj('mapaccess', items=[(0, delivered)], pos=0)), [])])
            return a, b
        def on_path(I, out, res):
            kind, r = out
            if kind != 'ok': return
            ents, s = I.path_state['io']; a, b = r
            res['obligations'] += 1
            def case(m=None):
                if m is None: rr, m = I.model_for(None)
                return {'op': 'cbor_roundtrip', 'numeric': {'value': '1/1', 'unit': ul.entries_json(I, ul.conc_entries(m, ents))}}
            order = [e[0].variant if e[0].variant != 'Derived' else rt.unit_name(I, e[0]) for e in rt.compound(I, ents).items[0].entries]
            byname = {u: (p, f) for u, p, f in ents}
            want = [('struct', 'Compound', 1), ('field', 'names'), ('map', len(ents))]
            for u in order:
                p, f = byname[u]
                want += unit_events(I, u) + [('struct', 'State', 2), ('field', 'power'), ('i32', p), ('field', 'prefix'), ('i32', f), ('end',)]
            want += [('map_end',), ('end',)]
            eq = events_equal(s.events, want)
            if a.variant != 'Ok' or eq is False: cand('compound-events-differ', case(), f'{s.events[:8]}... expected {want[:8]}...'); return
            if b.variant != 'Ok': cand('compound-not-rebuilt', case(), repr(b)[:200]); return
            res['discharged'] += 1
            if res.obligation(I, znot(eq), 'Compound serialises every entry with its power and prefix', lambda m: cand('compound-events-differ', case(m), '')) == 'unsat': res.witness('compound-events')
            got = rt.read_compound(I, b.items[0])
            if [u for u, _, _ in got] != order: cand('compound-not-rebuilt', case(), f'entries {[u for u, _, _ in got]} instead of {order}'); return
            bad = zor(*[zor(gp != byname[u][0], gf != byname[u][1]) for u, gp, gf in got]) if got else False
            if res.obligation(I, bad, 'visit_map rebuilds the Compound that was delivered', lambda m: cand('compound-not-rebuilt', case(m), str(got))) == 'unsat': res.witness('compound-rebuilt')
            if len(res['samples']) < 3 and len(ents) >= 2: res['samples'].append({'units': order, 'events': [str(e)[:60] for e in s.events[:12]]})
        run(entry, on_path)

# ---------------------------------------------------------------- replay
def confirm(c, outs):
    case = c['case']
    if case['op'] == 'unit_id':
        import replay_client
        cs = {'op': 'cbor_roundtrip', 'numeric': {'value': '1/1', 'unit': [[{'derived': case['id']}, 1, 0]]}}
        o = replay_client.run_cases([cs], profiles=REPLAY_PROFILES)[0]
        for prof, r in o.items():
            if 'panic' in r: return True, f'{prof}: panic'
            if 'err' in r:
                if c['role'] in ('identifier-not-in-table', 'duplicate-identifier', 'identifier-decodes-to-other-unit'): return True, f'{prof}: unit with id {case["id"]}: {r["err"]}'
                continue
            rr = r['ok']
            if not rr['unit_equal'] or rr['unit_text'][0] != rr['unit_text'][1]: return True, f'{prof}: unit {rr["unit_text"][0]} reads back as {rr["unit_text"][1]}'
            if rr['unit'] != [[{'derived': case['id']}, 1, 0]]: return True, f'{prof}: id {case["id"]} reads back as {rr["unit"]}'
        if c['role'] == 'duplicate-identifier': return True, 'two unit statics declare the same identifier (see detail)'
        return False, 'round trip exact'
    for prof, r in outs.items():
        if 'panic' in r: return True, f'{prof}: panic'
        if 'err' in r: return True, f'{prof}: {r["err"]}'
        rr = r['ok']
        if not (rr['unit_equal'] and rr['rational_cbor_equal'] and rr['rational_json_equal']) or rr['unit_text'][0] != rr['unit_text'][1] or rr['unit'] != case['numeric']['unit']:
            return True, f'{prof}: round trip changed the value: {rr}'
    return False, 'round trip exact'

def known_match(k, c): return True

if __name__ == '__main__':
    sys.exit(harness.main(sys.modules[__name__]))
