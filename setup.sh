#!/bin/bash
# Builds everything the checks need from files on disk only (offline).
set -e
cd "$(dirname "$0")"
export CARGO_NET_OFFLINE=true
mkdir -p .cache out evidence
# 1. warm the MIR dump target dirs (dependencies compile once; the crate itself is re-dumped by every check)
python3-vt engine/mirfront.py dev release bin >/dev/null
# 2. replay binary against /repo (dev + release), with the hook cfg on
python3-vt engine/replay_client.py dev release >/dev/null
echo "setup ok"
