//! Replays concrete cases (one JSON object per line on stdin) against the real `anything` crate built from /repo's
//! current working tree; prints one JSON object per line.  Every call is wrapped in catch_unwind.
use std::io::{BufRead, Write};
use std::panic::{catch_unwind, AssertUnwindSafe};

use anything::rational::DisplaySpec;
use anything::Rational;
use serde_json::{json, Value};

fn rat_json(r: &Rational) -> String {
    format!("{}/{}", r.numer(), r.denom())
}

fn unit_json(u: &anything::Compound) -> Value {
    // Compound serialises as a map Unit -> {power, prefix}; Unit is "Meter" | {"Derived": id}
    let bytes = match serde_cbor::to_vec(u) {
        Ok(b) => b,
        Err(e) => return json!({ "cbor_error": e.to_string() }),
    };
    let v: serde_cbor::Value = match serde_cbor::from_slice(&bytes) {
        Ok(v) => v,
        Err(e) => return json!({ "cbor_error": e.to_string() }),
    };
    let mut out = Vec::new();
    // struct Compound { names: map }
    let v = match v {
        serde_cbor::Value::Map(m) if m.len() == 1 => m.into_iter().next().map(|(_, v)| v).unwrap(),
        other => other,
    };
    if let serde_cbor::Value::Map(m) = v {
        for (k, s) in m {
            let name = match k {
                serde_cbor::Value::Text(t) => json!(t),
                serde_cbor::Value::Map(d) => {
                    let mut id = json!(null);
                    for (_, idv) in d {
                        if let serde_cbor::Value::Integer(i) = idv {
                            id = json!(i as u64);
                        }
                    }
                    json!({ "derived": id })
                }
                _ => json!("?"),
            };
            let mut power = 0i64;
            let mut prefix = 0i64;
            if let serde_cbor::Value::Map(st) = s {
                for (sk, sv) in st {
                    if let (serde_cbor::Value::Text(t), serde_cbor::Value::Integer(i)) = (sk, sv) {
                        if t == "power" {
                            power = i as i64
                        } else if t == "prefix" {
                            prefix = i as i64
                        }
                    }
                }
            }
            out.push(json!([name, power, prefix]));
        }
    }
    json!(out)
}

fn compound_from(v: &Value) -> Result<anything::Compound, String> {
    // [[unit, power, prefix], ..] with unit = "Meter" | {"derived": id}
    let mut names = std::collections::BTreeMap::new();
    for e in v.as_array().ok_or("unit entries")? {
        let key = match &e[0] {
            Value::String(s) => serde_cbor::Value::Text(s.clone()),
            Value::Object(o) => {
                let id = o.get("derived").and_then(|v| v.as_u64()).ok_or("derived id")?;
                let mut m = std::collections::BTreeMap::new();
                m.insert(serde_cbor::Value::Text("Derived".into()), serde_cbor::Value::Integer(id as i128));
                serde_cbor::Value::Map(m)
            }
            _ => return Err("bad unit key".into()),
        };
        let mut st = std::collections::BTreeMap::new();
        st.insert(serde_cbor::Value::Text("power".into()), serde_cbor::Value::Integer(e[1].as_i64().ok_or("power")? as i128));
        st.insert(serde_cbor::Value::Text("prefix".into()), serde_cbor::Value::Integer(e[2].as_i64().ok_or("prefix")? as i128));
        names.insert(key, serde_cbor::Value::Map(st));
    }
    let mut top = std::collections::BTreeMap::new();
    top.insert(serde_cbor::Value::Text("names".into()), serde_cbor::Value::Map(names));
    let bytes = serde_cbor::to_vec(&serde_cbor::Value::Map(top)).map_err(|e| e.to_string())?;
    serde_cbor::from_slice(&bytes).map_err(|e| e.to_string())
}

fn rational_from(v: &Value) -> Result<Rational, String> {
    let s = v.as_str().ok_or("rational string")?;
    let (n, d) = match s.split_once('/') {
        Some((n, d)) => (n, d),
        None => (s, "1"),
    };
    let n: num::BigInt = n.parse().map_err(|_| "numerator")?;
    let d: num::BigInt = d.parse().map_err(|_| "denominator")?;
    Ok(Rational::new(n, d))
}

fn numeric_from(v: &Value) -> Result<anything::Numeric, String> {
    Ok(anything::Numeric::new(rational_from(&v["value"])?, compound_from(&v["unit"])?))
}

fn result_json(r: Result<anything::Numeric, anything::Error>) -> Value {
    match r {
        Ok(n) => json!({ "ok": numeric_json(&n) }),
        Err(e) => json!({ "err": e.to_string() }),
    }
}

fn numeric_json(n: &anything::Numeric) -> Value {
    json!({ "value": rat_json(&n.value), "unit": unit_json(&n.unit), "unit_text": n.unit.to_string() })
}

thread_local! {
    static DB: std::cell::RefCell<Option<anything::Db>> = std::cell::RefCell::new(None);
}

fn with_db<T>(f: impl FnOnce(&anything::Db) -> T) -> T {
    DB.with(|db| {
        let mut db = db.borrow_mut();
        if db.is_none() {
            *db = Some(anything::Db::in_memory().expect("in-memory db"));
        }
        f(db.as_ref().unwrap())
    })
}

fn tree_json(tree: &syntree::Tree<anything::syntax::parser::Syntax, u32, u32>) -> Value {
    let mut out = Vec::new();
    for (depth, node) in tree.walk().with_depths() {
        let span = node.span();
        out.push(json!([depth, format!("{:?}", node.value()), span.start, span.end, !node.has_children() && span.start != span.end]));
    }
    json!(out)
}

fn run(case: &Value) -> Value {
    let op = case["op"].as_str().unwrap_or("");
    match op {
        "parse_rational" => {
            let text = case["text"].as_str().unwrap_or("");
            match str::parse::<Rational>(text) {
                Ok(r) => json!({ "ok": rat_json(&r) }),
                Err(e) => json!({ "err": e.to_string() }),
            }
        }
        "display" => {
            let n: num::BigInt = case["n"].as_str().unwrap().parse().unwrap();
            let d: num::BigInt = case["d"].as_str().unwrap().parse().unwrap();
            let r = Rational::new(n, d);
            let mut spec = DisplaySpec::default();
            spec.limit = case["limit"].as_u64().unwrap_or(6) as usize;
            spec.exponent_limit = case["exponent_limit"].as_u64().unwrap_or(8) as usize;
            spec.show_continuation = case["cont"].as_bool().unwrap_or(true);
            json!({ "ok": r.display(&spec).to_string() })
        }
        "lex" => {
            let text = case["text"].as_str().unwrap_or("");
            let mut out = Vec::new();
            let mut n = 0usize;
            for t in anything::syntax::lexer::Lexer::new(text) {
                out.push(json!([format!("{:?}", t.kind), t.len]));
                n += 1;
                if n > text.len() + 8 {
                    return json!({ "err": "lexer does not terminate", "ok": out });
                }
            }
            json!({ "ok": out })
        }
        "tree" => {
            let text = case["text"].as_str().unwrap_or("");
            match anything::syntax::parser::Parser::new(text).parse_root() {
                Ok(tree) => json!({ "ok": tree_json(&tree) }),
                Err(e) => json!({ "err": e.to_string() }),
            }
        }
        "query" => {
            let text = case["text"].as_str().unwrap_or("");
            let describe = case["describe"].as_bool().unwrap_or(false);
            with_db(|db| {
                let parsed = match anything::parse(text) {
                    Ok(p) => p,
                    Err(e) => return json!({ "err": format!("parse: {}", e) }),
                };
                let mut options = anything::Options::default();
                if describe {
                    options = options.describe();
                }
                let mut descriptions = Vec::new();
                let mut results = Vec::new();
                for r in anything::query(&parsed, db, options, &mut descriptions) {
                    match r {
                        Ok(n) => results.push(json!({ "ok": numeric_json(&n) })),
                        Err(e) => {
                            let range = e.range();
                            results.push(json!({ "err": e.to_string(), "start": range.start, "end": range.end,
                                "on_boundaries": text.is_char_boundary(range.start.min(text.len())) && text.is_char_boundary(range.end.min(text.len())) }))
                        }
                    }
                }
                let descs: Vec<Value> = descriptions
                    .iter()
                    .map(|d| match d {
                        anything::Description::Constant(q, c) => json!({ "query": q.to_string(), "description": c.description.to_string(),
                            "value": rat_json(&c.value), "unit": unit_json(&c.unit) }),
                    })
                    .collect();
                json!({ "ok": results, "descriptions": descs })
            })
        }
        "unit_powers" => {
            // Unit from its serialised form: "Meter" | {"Derived": id}
            let unit: anything::Unit = match case.get("id").and_then(|v| v.as_u64()) {
                Some(id) => {
                    let mut m = std::collections::BTreeMap::new();
                    m.insert(serde_cbor::Value::Text("Derived".into()), serde_cbor::Value::Integer(id as i128));
                    let bytes = serde_cbor::to_vec(&serde_cbor::Value::Map(m)).unwrap();
                    match serde_cbor::from_slice(&bytes) {
                        Ok(u) => u,
                        Err(e) => return json!({ "err": e.to_string() }),
                    }
                }
                None => {
                    let bytes = serde_cbor::to_vec(&serde_cbor::Value::Text(case["unit"].as_str().unwrap_or("").into())).unwrap();
                    match serde_cbor::from_slice(&bytes) {
                        Ok(u) => u,
                        Err(e) => return json!({ "err": e.to_string() }),
                    }
                }
            };
            let mut powers = anything::Powers::default();
            unit.powers(&mut powers, case["power"].as_i64().unwrap_or(1) as i32);
            let mut out = Vec::new();
            for (u, p) in powers.iter() {
                out.push(json!([format!("{:?}", u).split('(').next().unwrap_or("?"), p]));
            }
            json!({ "ok": out })
        }
        "numeric_op" => {
            let a = match numeric_from(&case["a"]) { Ok(a) => a, Err(e) => return json!({ "err": format!("bad case: {}", e) }) };
            let b = match numeric_from(&case["b"]) { Ok(b) => b, Err(e) => return json!({ "err": format!("bad case: {}", e) }) };
            match anything::verif::binary(case["fn"].as_str().unwrap_or(""), a, b) {
                Some(r) => json!({ "ok": [result_json(r)] }),
                None => json!({ "err": "unknown operator" }),
            }
        }
        "factor" => {
            let target = match compound_from(&case["target"]) { Ok(a) => a, Err(e) => return json!({ "err": format!("bad case: {}", e) }) };
            let source = match compound_from(&case["source"]) { Ok(a) => a, Err(e) => return json!({ "err": format!("bad case: {}", e) }) };
            let mut value = match rational_from(&case["value"]) { Ok(a) => a, Err(e) => return json!({ "err": format!("bad case: {}", e) }) };
            match anything::verif::factor(&target, &source, &mut value) {
                Some(ok) => json!({ "ok": { "commensurable": ok, "value": rat_json(&value) } }),
                None => json!({ "ok": { "refused": true } }),
            }
        }
        "call" => {
            let mut args = Vec::new();
            for a in case["args"].as_array().cloned().unwrap_or_default() {
                match numeric_from(&a) { Ok(a) => args.push(a), Err(e) => return json!({ "err": format!("bad case: {}", e) }) }
            }
            match anything::verif::call(case["name"].as_str().unwrap_or(""), args) {
                Some(r) => json!({ "ok": [result_json(r)] }),
                None => json!({ "err": "no such builtin" }),
            }
        }
        "unit_word" => {
            match anything::verif::unit_word(case["word"].as_str().unwrap_or("")) {
                Some((rest, prefix, unit)) => {
                    let c: anything::Compound = std::iter::FromIterator::from_iter([(unit, (1, prefix))]);
                    json!({ "ok": { "rest": rest, "prefix": prefix, "unit": unit_json(&c) } })
                }
                None => json!({ "ok": null }),
            }
        }
        "unit_display" => {
            let c = match compound_from(&case["unit"]) { Ok(a) => a, Err(e) => return json!({ "err": format!("bad case: {}", e) }) };
            json!({ "ok": { "text": c.to_string(), "plural": c.display(true).to_string() } })
        }
        "unit_seq" => {
            // what eval::unit does with one WORD: repeat the generated parser on the remainder
            let mut rest = case["word"].as_str().unwrap_or("");
            let mut out = Vec::new();
            let mut n = 0;
            while !rest.is_empty() {
                match anything::verif::unit_word(rest) {
                    Some((r, prefix, unit)) => {
                        let c: anything::Compound = std::iter::FromIterator::from_iter([(unit, (1, prefix))]);
                        out.push(json!({ "prefix": prefix, "unit": unit_json(&c) }));
                        if r.len() >= rest.len() { return json!({ "err": "parser made no progress", "ok": out }); }
                        rest = r;
                    }
                    None => return json!({ "ok": null, "rejected_at": rest }),
                }
                n += 1;
                if n > 64 { break; }
            }
            json!({ "ok": out })
        }
        "compound" => {
            let text = case["text"].as_str().unwrap_or("");
            match str::parse::<anything::Compound>(text) {
                Ok(c) => json!({ "ok": unit_json(&c), "text": c.to_string(), "plural": c.display(true).to_string() }),
                Err(e) => json!({ "err": e.to_string() }),
            }
        }
        _ => json!({ "err": format!("unknown op {}", op) }),
    }
}

fn main() {
    std::panic::set_hook(Box::new(|_| {}));
    let stdin = std::io::stdin();
    let stdout = std::io::stdout();
    for line in stdin.lock().lines() {
        let line = match line {
            Ok(l) => l,
            Err(_) => break,
        };
        if line.trim().is_empty() {
            continue;
        }
        let case: Value = match serde_json::from_str(&line) {
            Ok(v) => v,
            Err(e) => {
                println!("{}", json!({ "err": format!("bad case: {}", e) }));
                continue;
            }
        };
        let out = match catch_unwind(AssertUnwindSafe(|| run(&case))) {
            Ok(v) => v,
            Err(p) => {
                let msg = if let Some(s) = p.downcast_ref::<String>() {
                    s.clone()
                } else if let Some(s) = p.downcast_ref::<&str>() {
                    s.to_string()
                } else {
                    "panic".to_string()
                };
                json!({ "panic": msg })
            }
        };
        let mut o = stdout.lock();
        let _ = writeln!(o, "{}", out);
        let _ = o.flush();
    }
}
