//! Replays concrete cases (one JSON object per line on stdin) against the real `anything` crate built from /repo's
//! current working tree; prints one JSON object per line.  Every call is wrapped in catch_unwind.
use std::io::{BufRead, Write};
use std::panic::{catch_unwind, AssertUnwindSafe};

use anything::rational::DisplaySpec;
use anything::Rational;
use serde_json::{json, Value};

fn rat_json(r: &Rational) -> String {
    format!("{}/{}", r.numer(), r.denom())
}

fn unit_json(u: &anything::Compound) -> Value {
    // Compound serialises as a map Unit -> {power, prefix}; Unit is "Meter" | {"Derived": id}
    let bytes = match serde_cbor::to_vec(u) {
        Ok(b) => b,
        Err(e) => return json!({ "cbor_error": e.to_string() }),
    };
    let v: serde_cbor::Value = match serde_cbor::from_slice(&bytes) {
        Ok(v) => v,
        Err(e) => return json!({ "cbor_error": e.to_string() }),
    };
    let mut out = Vec::new();
    // struct Compound { names: map }
    let v = match v {
        serde_cbor::Value::Map(m) if m.len() == 1 => m.into_iter().next().map(|(_, v)| v).unwrap(),
        other => other,
    };
    if let serde_cbor::Value::Map(m) = v {
        for (k, s) in m {
            let name = match k {
                serde_cbor::Value::Text(t) => json!(t),
                serde_cbor::Value::Map(d) => {
                    let mut id = json!(null);
                    for (_, idv) in d {
                        if let serde_cbor::Value::Integer(i) = idv {
                            id = json!(i as u64);
                        }
                    }
                    json!({ "derived": id })
                }
                _ => json!("?"),
            };
            let mut power = 0i64;
            let mut prefix = 0i64;
            if let serde_cbor::Value::Map(st) = s {
                for (sk, sv) in st {
                    if let (serde_cbor::Value::Text(t), serde_cbor::Value::Integer(i)) = (sk, sv) {
                        if t == "power" {
                            power = i as i64
                        } else if t == "prefix" {
                            prefix = i as i64
                        }
                    }
                }
            }
            out.push(json!([name, power, prefix]));
        }
    }
    json!(out)
}

fn compound_from(v: &Value) -> Result<anything::Compound, String> {
    // [[unit, power, prefix], ..] with unit = "Meter" | {"derived": id}
    let mut names = std::collections::BTreeMap::new();
    for e in v.as_array().ok_or("unit entries")? {
        let key = match &e[0] {
            Value::String(s) => serde_cbor::Value::Text(s.clone()),
            Value::Object(o) => {
                let id = o.get("derived").and_then(|v| v.as_u64()).ok_or("derived id")?;
                let mut m = std::collections::BTreeMap::new();
                m.insert(serde_cbor::Value::Text("Derived".into()), serde_cbor::Value::Integer(id as i128));
                serde_cbor::Value::Map(m)
            }
            _ => return Err("bad unit key".into()),
        };
        let mut st = std::collections::BTreeMap::new();
        st.insert(serde_cbor::Value::Text("power".into()), serde_cbor::Value::Integer(e[1].as_i64().ok_or("power")? as i128));
        st.insert(serde_cbor::Value::Text("prefix".into()), serde_cbor::Value::Integer(e[2].as_i64().ok_or("prefix")? as i128));
        names.insert(key, serde_cbor::Value::Map(st));
    }
    let mut top = std::collections::BTreeMap::new();
    top.insert(serde_cbor::Value::Text("names".into()), serde_cbor::Value::Map(names));
    let bytes = serde_cbor::to_vec(&serde_cbor::Value::Map(top)).map_err(|e| e.to_string())?;
    serde_cbor::from_slice(&bytes).map_err(|e| e.to_string())
}

fn rational_from(v: &Value) -> Result<Rational, String> {
    let s = v.as_str().ok_or("rational string")?;
    let (n, d) = match s.split_once('/') {
        Some((n, d)) => (n, d),
        None => (s, "1"),
    };
    let n: num::BigInt = n.parse().map_err(|_| "numerator")?;
    let d: num::BigInt = d.parse().map_err(|_| "denominator")?;
    Ok(Rational::new(n, d))
}

fn numeric_from(v: &Value) -> Result<anything::Numeric, String> {
    Ok(anything::Numeric::new(rational_from(&v["value"])?, compound_from(&v["unit"])?))
}

fn result_json(r: Result<anything::Numeric, anything::Error>) -> Value {
    match r {
        Ok(n) => json!({ "ok": numeric_json(&n) }),
        Err(e) => json!({ "err": e.to_string() }),
    }
}

fn numeric_json(n: &anything::Numeric) -> Value {
    json!({ "value": rat_json(&n.value), "unit": unit_json(&n.unit), "unit_text": n.unit.to_string() })
}

thread_local! {
    static DB: std::cell::RefCell<Option<anything::Db>> = std::cell::RefCell::new(None);
}

fn with_db<T>(f: impl FnOnce(&anything::Db) -> T) -> T {
    DB.with(|db| {
        let mut db = db.borrow_mut();
        if db.is_none() {
            *db = Some(anything::Db::in_memory().expect("in-memory db"));
        }
        f(db.as_ref().unwrap())
    })
}

fn tree_json(tree: &syntree::Tree<anything::syntax::parser::Syntax, u32, u32>) -> Value {
    let mut out = Vec::new();
    for (depth, node) in tree.walk().with_depths() {
        let span = node.span();
        out.push(json!([depth, format!("{:?}", node.value()), span.start, span.end, !node.has_children() && span.start != span.end]));
    }
    json!(out)
}

fn run(case: &Value) -> Value {
    let op = case["op"].as_str().unwrap_or("");
    match op {
        "parse_rational" => {
            let text = case["text"].as_str().unwrap_or("");
            match str::parse::<Rational>(text) {
                Ok(r) => json!({ "ok": rat_json(&r) }),
                Err(e) => json!({ "err": e.to_string() }),
            }
        }
        "display" => {
            let n: num::BigInt = case["n"].as_str().unwrap().parse().unwrap();
            let d: num::BigInt = case["d"].as_str().unwrap().parse().unwrap();
            let r = Rational::new(n, d);
            let mut spec = DisplaySpec::default();
            spec.limit = case["limit"].as_u64().unwrap_or(6) as usize;
            spec.exponent_limit = case["exponent_limit"].as_u64().unwrap_or(8) as usize;
            spec.show_continuation = case["cont"].as_bool().unwrap_or(true);
            json!({ "ok": r.display(&spec).to_string() })
        }
        "lex" => {
            let text = case["text"].as_str().unwrap_or("");
            let mut out = Vec::new();
            let mut n = 0usize;
            for t in anything::syntax::lexer::Lexer::new(text) {
                out.push(json!([format!("{:?}", t.kind), t.len]));
                n += 1;
                if n > text.len() + 8 {
                    return json!({ "err": "lexer does not terminate", "ok": out });
                }
            }
            json!({ "ok": out })
        }
        "tree" => {
            let text = case["text"].as_str().unwrap_or("");
            match anything::syntax::parser::Parser::new(text).parse_root() {
                Ok(tree) => json!({ "ok": tree_json(&tree) }),
                Err(e) => json!({ "err": e.to_string() }),
            }
        }
        "query" => {
            let text = case["text"].as_str().unwrap_or("");
            let describe = case["describe"].as_bool().unwrap_or(false);
            with_db(|db| {
                let parsed = match anything::parse(text) {
                    Ok(p) => p,
                    Err(e) => return json!({ "err": format!("parse: {}", e) }),
                };
                let mut options = anything::Options::default();
                if describe {
                    options = options.describe();
                }
                let mut descriptions = Vec::new();
                let mut results = Vec::new();
                for r in anything::query(&parsed, db, options, &mut descriptions) {
                    match r {
                        Ok(n) => results.push(json!({ "ok": numeric_json(&n) })),
                        Err(e) => {
                            let range = e.range();
                            results.push(json!({ "err": e.to_string(), "start": range.start, "end": range.end,
                                "on_boundaries": text.is_char_boundary(range.start.min(text.len())) && text.is_char_boundary(range.end.min(text.len())) }))
                        }
                    }
                }
                let descs: Vec<Value> = descriptions
                    .iter()
                    .map(|d| match d {
                        anything::Description::Constant(q, c) => json!({ "query": q.to_string(), "description": c.description.to_string(),
                            "value": rat_json(&c.value), "unit": unit_json(&c.unit) }),
                    })
                    .collect();
                json!({ "ok": results, "descriptions": descs })
            })
        }
        "unit_powers" => {
            // Unit from its serialised form: "Meter" | {"Derived": id}
            let unit: anything::Unit = match case.get("id").and_then(|v| v.as_u64()) {
                Some(id) => {
                    let mut m = std::collections::BTreeMap::new();
                    m.insert(serde_cbor::Value::Text("Derived".into()), serde_cbor::Value::Integer(id as i128));
                    let bytes = serde_cbor::to_vec(&serde_cbor::Value::Map(m)).unwrap();
                    match serde_cbor::from_slice(&bytes) {
                        Ok(u) => u,
                        Err(e) => return json!({ "err": e.to_string() }),
                    }
                }
                None => {
                    let bytes = serde_cbor::to_vec(&serde_cbor::Value::Text(case["unit"].as_str().unwrap_or("").into())).unwrap();
                    match serde_cbor::from_slice(&bytes) {
                        Ok(u) => u,
                        Err(e) => return json!({ "err": e.to_string() }),
                    }
                }
            };
            let mut powers = anything::Powers::default();
            unit.powers(&mut powers, case["power"].as_i64().unwrap_or(1) as i32);
            let mut out = Vec::new();
            for (u, p) in powers.iter() {
                out.push(json!([format!("{:?}", u).split('(').next().unwrap_or("?"), p]));
            }
            json!({ "ok": out })
        }
        "numeric_op" => {
            let a = match numeric_from(&case["a"]) { Ok(a) => a, Err(e) => return json!({ "err": format!("bad case: {}", e) }) };
            let b = match numeric_from(&case["b"]) { Ok(b) => b, Err(e) => return json!({ "err": format!("bad case: {}", e) }) };
            match anything::verif::binary(case["fn"].as_str().unwrap_or(""), a, b) {
                Some(r) => json!({ "ok": [result_json(r)] }),
                None => json!({ "err": "unknown operator" }),
            }
        }
        "factor" => {
            let target = match compound_from(&case["target"]) { Ok(a) => a, Err(e) => return json!({ "err": format!("bad case: {}", e) }) };
            let source = match compound_from(&case["source"]) { Ok(a) => a, Err(e) => return json!({ "err": format!("bad case: {}", e) }) };
            let mut value = match rational_from(&case["value"]) { Ok(a) => a, Err(e) => return json!({ "err": format!("bad case: {}", e) }) };
            match anything::verif::factor(&target, &source, &mut value) {
                Some(ok) => json!({ "ok": { "commensurable": ok, "value": rat_json(&value) } }),
                None => json!({ "ok": { "refused": true } }),
            }
        }
        "call" => {
            let mut args = Vec::new();
            for a in case["args"].as_array().cloned().unwrap_or_default() {
                match numeric_from(&a) { Ok(a) => args.push(a), Err(e) => return json!({ "err": format!("bad case: {}", e) }) }
            }
            match anything::verif::call(case["name"].as_str().unwrap_or(""), args) {
                Some(r) => json!({ "ok": [result_json(r)] }),
                None => json!({ "err": "no such builtin" }),
            }
        }
        "unit_word" => {
            match anything::verif::unit_word(case["word"].as_str().unwrap_or("")) {
                Some((rest, prefix, unit)) => {
                    let c: anything::Compound = std::iter::FromIterator::from_iter([(unit, (1, prefix))]);
                    json!({ "ok": { "rest": rest, "prefix": prefix, "unit": unit_json(&c) } })
                }
                None => json!({ "ok": null }),
            }
        }
        "db_units" => {
            // distinct units of the constants in the shipped database files (db/*.bin.gz under the repository)
            let dir = case["dir"].as_str().unwrap_or("/repo/db");
            let mut seen = std::collections::BTreeSet::new();
            let mut out = Vec::new();
            let mut count = 0usize;
            let mut entries: Vec<_> = match std::fs::read_dir(dir) { Ok(d) => d.filter_map(|e| e.ok()).map(|e| e.path()).collect(), Err(e) => return json!({ "err": e.to_string() }) };
            entries.sort();
            for path in entries {
                if !path.to_string_lossy().ends_with(".bin.gz") { continue; }
                let file = match std::fs::File::open(&path) { Ok(f) => f, Err(e) => return json!({ "err": e.to_string() }) };
                let v: serde_cbor::Value = match serde_cbor::from_reader(flate2::read::GzDecoder::new(file)) { Ok(v) => v, Err(e) => return json!({ "err": format!("{}: {}", path.display(), e) }) };
                let consts = match &v { serde_cbor::Value::Map(m) => m.get(&serde_cbor::Value::Text("constants".into())).cloned(), _ => None };
                if let Some(serde_cbor::Value::Array(cs)) = consts {
                    for c in cs {
                        let bytes = match serde_cbor::to_vec(&c) { Ok(b) => b, Err(_) => continue };
                        match serde_cbor::from_slice::<anything::Constant>(&bytes) {
                            Ok(k) => {
                                count += 1;
                                let u = unit_json(&k.unit);
                                if seen.insert(u.to_string()) { out.push(json!({ "unit": u, "text": k.unit.to_string(), "example": k.description.to_string(), "value": rat_json(&k.value) })); }
                            }
                            Err(_) => {}
                        }
                    }
                }
            }
            json!({ "ok": out, "constants": count })
        }
        "cbor_roundtrip" => {
            // Numeric (rational + unit expression) through serde_cbor and the rational also through serde_json
            let n = match numeric_from(&case["numeric"]) { Ok(a) => a, Err(e) => return json!({ "err": format!("bad case: {}", e) }) };
            let ub = match serde_cbor::to_vec(&n.unit) { Ok(b) => b, Err(e) => return json!({ "err": format!("encode unit: {}", e) }) };
            let u2: anything::Compound = match serde_cbor::from_slice(&ub) { Ok(u) => u, Err(e) => return json!({ "err": format!("decode unit: {}", e) }) };
            let rb = match serde_cbor::to_vec(&n.value) { Ok(b) => b, Err(e) => return json!({ "err": format!("encode rational: {}", e) }) };
            let r2: Rational = match serde_cbor::from_slice(&rb) { Ok(u) => u, Err(e) => return json!({ "err": format!("decode rational: {}", e) }) };
            let rj = match serde_json::to_string(&n.value) { Ok(b) => b, Err(e) => return json!({ "err": format!("json encode: {}", e) }) };
            let r3: Rational = match serde_json::from_str(&rj) { Ok(u) => u, Err(e) => return json!({ "err": format!("json decode: {}", e) }) };
            json!({ "ok": { "unit_equal": u2 == n.unit, "unit_text": [n.unit.to_string(), u2.to_string()], "unit": unit_json(&u2), "rational_cbor_equal": r2 == n.value, "rational_json_equal": r3 == n.value } })
        }
        "open_sequence" => open_sequence(case),
        "query_sequence" => {
            // queries[0] then queries[1] against ONE database; queries[1] alone against a fresh one
            let qs: Vec<String> = case["queries"].as_array().cloned().unwrap_or_default().iter().filter_map(|v| v.as_str().map(|s| s.to_owned())).collect();
            if qs.len() != 2 { return json!({ "err": "two queries expected" }); }
            let eval = |db: &anything::Db, q: &str| -> Value {
                let parsed = match anything::parse(q) { Ok(p) => p, Err(e) => return json!({ "err": e.to_string() }) };
                let mut d = Vec::new();
                let mut rs = Vec::new();
                for r in anything::query(&parsed, db, anything::Options::default().describe(), &mut d) {
                    match r { Ok(n) => rs.push(json!({ "ok": rat_json(&n.value), "unit": n.unit.to_string() })), Err(e) => rs.push(json!({ "err": e.to_string() })) }
                }
                let ds: Vec<Value> = d.iter().map(|x| match x { anything::Description::Constant(q, c) => json!([q.to_string(), c.description.to_string()]) }).collect();
                json!({ "results": rs, "descriptions": ds })
            };
            let db1 = match anything::Db::in_memory() { Ok(d) => d, Err(e) => return json!({ "err": e.to_string() }) };
            let first = eval(&db1, &qs[0]);
            let second_after = eval(&db1, &qs[1]);
            let db2 = match anything::Db::in_memory() { Ok(d) => d, Err(e) => return json!({ "err": e.to_string() }) };
            let second_alone = eval(&db2, &qs[1]);
            json!({ "ok": { "first": first, "second_after_first": second_after, "second_alone": second_alone } })
        }
        "unit_display" => {
            let c = match compound_from(&case["unit"]) { Ok(a) => a, Err(e) => return json!({ "err": format!("bad case: {}", e) }) };
            json!({ "ok": { "text": c.to_string(), "plural": c.display(true).to_string() } })
        }
        "unit_seq" => {
            // what eval::unit does with one WORD: repeat the generated parser on the remainder
            let mut rest = case["word"].as_str().unwrap_or("");
            let mut out = Vec::new();
            let mut n = 0;
            while !rest.is_empty() {
                match anything::verif::unit_word(rest) {
                    Some((r, prefix, unit)) => {
                        let c: anything::Compound = std::iter::FromIterator::from_iter([(unit, (1, prefix))]);
                        out.push(json!({ "prefix": prefix, "unit": unit_json(&c) }));
                        if r.len() >= rest.len() { return json!({ "err": "parser made no progress", "ok": out }); }
                        rest = r;
                    }
                    None => return json!({ "ok": null, "rejected_at": rest }),
                }
                n += 1;
                if n > 64 { break; }
            }
            json!({ "ok": out })
        }
        "compound" => {
            let text = case["text"].as_str().unwrap_or("");
            match str::parse::<anything::Compound>(text) {
                Ok(c) => json!({ "ok": unit_json(&c), "text": c.to_string(), "plural": c.display(true).to_string() }),
                Err(e) => json!({ "err": e.to_string() }),
            }
        }
        _ => json!({ "err": format!("unknown op {}", op) }),
    }
}

const PROBES: &[&str] = &["mass of earth to kg", "population finland", "population sweden + population finland", "diameter moon to km", "zzyzxqk", "2 * zzyzxqk"];

/// an openable index with OTHER content: the index of a complete start plus one fact ("zzyzxqk") the shipped data lacks
fn add_foreign_fact(index_path: &std::path::Path) -> Result<(), String> {
    use tantivy::tokenizer::{LowerCaser, NgramTokenizer, TextAnalyzer};
    let index = tantivy::Index::open_in_dir(index_path).map_err(|e| e.to_string())?;
    index.tokenizers().register("ngram", TextAnalyzer::from(NgramTokenizer::new(1, 7, true)).filter(LowerCaser));
    let schema = index.schema();
    let field_data = schema.get_field("data").ok_or("no data field")?;
    let field_name = schema.get_field("name").ok_or("no name field")?;
    let payload = {
        let reader = index.reader().map_err(|e| e.to_string())?;
        let doc = reader.searcher().doc(tantivy::DocAddress::new(0, 0)).map_err(|e| e.to_string())?;
        match doc.get_first(field_data) { Some(tantivy::schema::Value::Bytes(b)) => b.clone(), _ => return Err("no stored payload".into()) }
    };
    let mut writer = index.writer(50_000_000).map_err(|e| e.to_string())?;
    let mut doc = tantivy::Document::default();
    doc.add_bytes(field_data, payload);
    doc.add_text(field_name, "zzyzxqk");
    writer.add_document(doc).map_err(|e| e.to_string())?;
    writer.commit().map_err(|e| e.to_string())?;
    writer.wait_merging_threads().map_err(|e| e.to_string())?;
    Ok(())
}

fn probe_answers(db: &anything::Db) -> Vec<Value> {
    let mut out = Vec::new();
    for q in PROBES {
        let parsed = match anything::parse(q) { Ok(p) => p, Err(e) => { out.push(json!({"err": e.to_string()})); continue; } };
        let mut descriptions = Vec::new();
        let mut rs = Vec::new();
        for r in anything::query(&parsed, db, anything::Options::default(), &mut descriptions) {
            match r { Ok(n) => rs.push(json!({"ok": rat_json(&n.value), "unit": n.unit.to_string()})), Err(e) => rs.push(json!({"err": e.to_string()})) }
        }
        out.push(json!(rs));
    }
    out
}

/// child process: one start of the on-disk database under the environment prepared by the parent
fn open_once() {
    let out = match anything::Db::open() {
        Ok(db) => json!({ "ok": probe_answers(&db) }),
        Err(e) => json!({ "err": format!("{:#}", e) }),
    };
    println!("{}", out);
}

fn run_child(base: &std::path::Path, crash: Option<&str>) -> (Option<i32>, String) {
    let exe = std::env::current_exe().expect("current exe");
    let mut cmd = std::process::Command::new(exe);
    cmd.arg("--open-once").env("XDG_DATA_HOME", base).env("HOME", base).env_remove("ANYTHING_VERIF_CRASH_AFTER");
    if let Some(c) = crash { cmd.env("ANYTHING_VERIF_CRASH_AFTER", c); }
    match cmd.output() {
        Ok(o) => (o.status.code(), String::from_utf8_lossy(&o.stdout).to_string()),
        Err(e) => (Some(-1), format!("spawn: {}", e)),
    }
}

fn open_sequence(case: &Value) -> Value {
    use std::fs;
    let root = std::path::PathBuf::from(case["scratch"].as_str().unwrap_or("/tmp/verif-c15"));
    let _ = fs::remove_dir_all(&root);
    let base = root.join("data");
    let data = base.join("facts");
    // what the current metadata looks like: learnt from a clean start in a second directory
    let refbase = root.join("ref");
    let (code, _) = run_child(&refbase, None);
    if code != Some(0) { return json!({ "err": "reference start failed" }); }
    let cur_meta: Value = match fs::read_to_string(refbase.join("facts").join("meta.json")).ok().and_then(|s| serde_json::from_str(&s).ok()) { Some(v) => v, None => return json!({ "err": "no reference meta.json" }) };
    // index state
    let index = &case["index"];
    let _ = fs::create_dir_all(&data);
    if index == "absent" {
    } else if index == "broken" {
        let _ = fs::create_dir_all(data.join("index"));
        let _ = fs::write(data.join("index").join("meta.json"), b"{ not an index");
    } else if index[1] == "cur" {
        let (code, _) = run_child(&base, None);
        if code != Some(0) { return json!({ "err": "could not build the initial index" }); }
    } else if index[1] == "empty" {
        let (code, _) = run_child(&base, Some("index-created#1"));
        if code == Some(0) { return json!({ "ok": { "unrealisable": true } }); }
    } else if index[1] == "other" {
        let (code, _) = run_child(&base, None);
        if code != Some(0) { return json!({ "err": "could not build the initial index" }); }
        if let Err(e) = add_foreign_fact(&data.join("index")) { return json!({ "err": format!("could not add the foreign fact: {}", e) }); }
    } else {
        return json!({ "ok": { "unrealisable": true } });
    }
    // metadata state
    let meta = &case["meta"];
    let meta_path = data.join("meta.json");
    if meta == "absent" { let _ = fs::remove_file(&meta_path); }
    else if meta == "garbage" { let _ = fs::write(&meta_path, b"{\"version\": "); }
    else {
        let pick = |k: &str, which: &Value| -> Value {
            if which == "cur" { cur_meta[k].clone() } else if which == "other" { json!("something-else") } else { Value::Null }
        };
        let m = json!({ "version": pick("version", &meta[1]), "database_hash": pick("database_hash", &meta[2]) });
        let _ = fs::write(&meta_path, serde_json::to_vec(&m).unwrap_or_default());
    }
    // the starts
    let names = case["crash_names"].as_array().cloned().unwrap_or_default();
    let mut log = Vec::new();
    for (i, n) in names.iter().enumerate() {
        if i + 1 >= names.len().max(3) { break; }
        let crash = n.as_str();
        let (code, out) = run_child(&base, crash);
        if crash.is_some() && code == Some(0) { return json!({ "ok": { "unrealisable": true, "why": format!("start {} did not reach crash point {:?}", i, crash) } }); }
        let parsed: Value = serde_json::from_str(out.trim()).unwrap_or(Value::Null);
        log.push(json!({ "crash": crash, "exit": code, "answers": parsed.get("ok").cloned().unwrap_or(Value::Null), "error": parsed.get("err").cloned().unwrap_or(Value::Null) }));
    }
    let (code, out) = run_child(&base, None);
    let answers: Value = serde_json::from_str(out.trim()).unwrap_or(json!({ "err": format!("exit {:?}: {}", code, out.trim()) }));
    let expected = match anything::Db::in_memory() { Ok(db) => json!(probe_answers(&db)), Err(e) => return json!({ "err": e.to_string() }) };
    let _ = fs::remove_dir_all(&root);
    json!({ "ok": { "final_start_ok": answers.get("ok").is_some(), "answers": answers.get("ok").cloned().unwrap_or(Value::Null), "error": answers.get("err").cloned().unwrap_or(Value::Null), "expected": expected, "starts": log } })
}

fn main() {
    if std::env::args().any(|a| a == "--open-once") {
        open_once();
        return;
    }
    std::panic::set_hook(Box::new(|_| {}));
    let stdin = std::io::stdin();
    let stdout = std::io::stdout();
    for line in stdin.lock().lines() {
        let line = match line {
            Ok(l) => l,
            Err(_) => break,
        };
        if line.trim().is_empty() {
            continue;
        }
        let case: Value = match serde_json::from_str(&line) {
            Ok(v) => v,
            Err(e) => {
                println!("{}", json!({ "err": format!("bad case: {}", e) }));
                continue;
            }
        };
        let out = match catch_unwind(AssertUnwindSafe(|| run(&case))) {
            Ok(v) => v,
            Err(p) => {
                let msg = if let Some(s) = p.downcast_ref::<String>() {
                    s.clone()
                } else if let Some(s) = p.downcast_ref::<&str>() {
                    s.to_string()
                } else {
                    "panic".to_string()
                };
                json!({ "panic": msg })
            }
        };
        let mut o = stdout.lock();
        let _ = writeln!(o, "{}", out);
        let _ = o.flush();
    }
}
