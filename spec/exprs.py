"""Reference semantics of the expression language (independent of /repo): documented grammar and exact evaluation.

Grammar (README / property C06):   `^` (and `**`) binds tighter than `*` `/`, tighter than `+` `-`, tighter than `to`;
operators of equal precedence group left to right; parentheses group; `name(arg, ...)` calls; `N%` is N/100.

A *template* is a token list; rendering to text and parsing by the reference are both done from it, so the reference
never looks at the text the implementation lexes.

tokens:  ('leaf', i)   numeric literal number i          ('pct',)   a percent sign directly after a leaf
         ('op', ch)    binary operator, ch in + - * / ^ ** to
         ('lp',) ('rp',) ('comma',) ('call', name)        ('unit', text)  unit text directly after a leaf / after `to`
"""
from fractions import Fraction

PRIO = {'to': 1, '+': 2, '-': 2, '*': 3, '/': 3, '^': 10, '**': 10}

class RefSyntaxError(Exception): pass

def parse(tokens):
    """precedence climbing -> AST:  ('leaf', i, pct, unit) | ('bin', op, l, r) | ('call', name, [args]) | ('cast', l, unit)"""
    pos = [0]
    def peek(): return tokens[pos[0]] if pos[0] < len(tokens) else None
    def take():
        t = peek(); pos[0] += 1; return t
    def operand():
        t = take()
        if t is None: raise RefSyntaxError('operand expected')
        if t[0] == 'leaf':
            pct = False; unit = None
            if peek() and peek()[0] == 'pct': take(); pct = True
            elif peek() and peek()[0] == 'unit': unit = take()[1]
            return ('leaf', t[1], pct, unit)
        if t[0] == 'lp':
            e = expr(0)
            if not peek() or peek()[0] != 'rp': raise RefSyntaxError(') expected')
            take(); return e
        if t[0] == 'call':
            if not peek() or peek()[0] != 'lp': raise RefSyntaxError('( expected')
            take(); args = []
            if peek() and peek()[0] == 'rp': take(); return ('call', t[1], args)
            while True:
                args.append(expr(0))
                n = take()
                if n and n[0] == 'rp': break
                if not n or n[0] != 'comma': raise RefSyntaxError(', expected')
            return ('call', t[1], args)
        raise RefSyntaxError(f'unexpected {t}')
    def expr(minp):
        left = operand()
        while True:
            t = peek()
            if not t or t[0] != 'op': return left
            p = PRIO[t[1]]
            if p <= minp: return left          # equal priority returns to the enclosing loop: left associative
            take()
            if t[1] == 'to':
                u = take()
                if not u or u[0] != 'unit': raise RefSyntaxError('unit expected after to')
                left = ('cast', left, u[1])
            else:
                right = expr(p)
                left = ('bin', '^' if t[1] == '**' else t[1], left, right)
    e = expr(0)
    if pos[0] != len(tokens): raise RefSyntaxError('trailing tokens')
    return e

def show(ast):
    k = ast[0]
    if k == 'leaf': return f'L{ast[1]}' + ('%' if ast[2] else '') + (f'[{ast[3]}]' if ast[3] else '')
    if k == 'bin': return f'({show(ast[2])} {ast[1]} {show(ast[3])})'
    if k == 'cast': return f'({show(ast[1])} to {ast[2]})'
    return f'{ast[1]}(' + ', '.join(show(a) for a in ast[2]) + ')'

class DivZero(Exception): pass

def eval_exact(ast, leaf):
    """concrete exact evaluation with Fractions; leaf(i) -> Fraction.  raises DivZero; only unit-less arithmetic ASTs."""
    k = ast[0]
    if k == 'leaf':
        v = Fraction(leaf(ast[1]))
        return v / 100 if ast[2] else v
    if k == 'bin':
        a = eval_exact(ast[2], leaf); b = eval_exact(ast[3], leaf); op = ast[1]
        if op == '+': return a + b
        if op == '-': return a - b
        if op == '*': return a * b
        if op == '/':
            if b == 0: raise DivZero()
            return a / b
        if op == '^':
            if b.denominator != 1: raise ValueError('non-integer exponent')
            n = b.numerator
            if a == 0 and n < 0: raise DivZero()
            return a ** n
    raise ValueError('not an arithmetic AST: ' + show(ast))

def eval_sym(ast, leaf, ops):
    """symbolic exact evaluation: returns (value, error_condition).  `ops` supplies the arithmetic:
    ops.add/sub/mul/div(a,b), ops.eq0(a) -> condition, ops.int_of(a) -> python int (exponent), ops.powi(a, n),
    ops.lor(c1, c2), ops.land(c1,c2), ops.false, ops.const(Fraction)"""
    k = ast[0]
    if k == 'leaf':
        v = leaf(ast[1])
        return (ops.div(v, ops.const(Fraction(100))) if ast[2] else v), ops.false
    if k == 'bin':
        a, ea = eval_sym(ast[2], leaf, ops); b, eb = eval_sym(ast[3], leaf, ops); op = ast[1]
        e = ops.lor(ea, eb)
        if op == '+': return ops.add(a, b), e
        if op == '-': return ops.sub(a, b), e
        if op == '*': return ops.mul(a, b), e
        if op == '/': return ops.div(a, b), ops.lor(e, ops.eq0(b))
        if op == '^':
            n = ops.int_of(b)
            if n < 0: return ops.powi(a, n), ops.lor(e, ops.eq0(a))
            return ops.powi(a, n), e
    raise ValueError('not an arithmetic AST: ' + show(ast))
