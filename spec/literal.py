"""Independent reference semantics of decimal literals (C07).  Nothing here is derived from /repo.

grammar:  sign? ( digits+ ( '.' digits* )? | '.' digits+ ) ( [eE] sign? digits+ )?
value  :  (-1)^neg * mantissa * 10^(-fraction_digits) * 10^(±exponent)
"""
import re
from fractions import Fraction

LIT = re.compile(r'^([+-])?(?:(\d+)(?:\.(\d*))?|\.(\d+))(?:[eE]([+-])?(\d+))?$')

def value(text):
    """Fraction spelled by text, or None when text is not in the literal grammar"""
    m = LIT.match(text)
    if not m or '\n' in text: return None
    sign, ip, fp, fp2, esign, edigits = m.groups()
    ip = ip or ''; fp = fp if fp is not None else (fp2 or '')
    mant = int((ip + fp) or '0')
    v = Fraction(mant, 10 ** len(fp))
    if edigits is not None:
        e = int(edigits)
        if e > 5000: return 'huge'
        v = v / 10 ** e if esign == '-' else v * 10 ** e
    return -v if sign == '-' else v
