"""Reference reading of unit words (C05).

Two sources, neither generated from /repo's Rust code:
  * the project's *documentation* of its vocabulary, tools/gen/data.toml (which names exist, which unit each name
    denotes, how the prefixes are spelled) -- read at run time, so an edited vocabulary is picked up;
  * STANDARD below: what the symbols of the SI brochure / yard-pound agreement / US customary measure denote, written
    by hand; a documented name that is also a standard symbol must denote that standard unit.
`readings(word)` enumerates every way to read a word as a sequence of [SI prefix] + unit name pieces, optionally
separated by '-': a list of tuples ((unit key, total prefix exponent), ...).  The gram is documented with a bias of -3
relative to the kilogram base unit.
"""
import tomllib, functools
from spec import units as U

def load(repo):
    d = tomllib.load(open(repo + '/tools/gen/data.toml', 'rb'))
    names = {}      # spelling -> (unit key, bias)
    for u in d['units']:
        key = u.get('name') or u.get('unit')
        if key not in U.BASE: key = U.key(key)
        bias = int(u.get('prefix_bias', 0))
        for n in u.get('names', []):
            names.setdefault(n, []).append((key, bias))
    prefixes = {}
    for p in d['prefixes']:
        exp = U.PREFIXES_BY_NAME[p['prefix']]
        for n in p['names']: prefixes[n] = exp
    return names, prefixes

U.PREFIXES_BY_NAME = {'YOTTA': 24, 'ZETTA': 21, 'EXA': 18, 'PETA': 15, 'TERA': 12, 'GIGA': 9, 'MEGA': 6, 'KILO': 3, 'HECTO': 2, 'DECA': 1,
                      'DECI': -1, 'CENTI': -2, 'MILLI': -3, 'MICRO': -6, 'NANO': -9, 'PICO': -12, 'FEMTO': -15, 'ATTO': -18, 'ZEPTO': -21, 'YOCTO': -24}

class Vocabulary:
    def __init__(self, repo):
        self.names, self.prefixes = load(repo)
        self.maxlen = max(len(n) for n in self.names)
    def pieces_at(self, w, i):
        """[(end, unit key, total prefix)] for one [prefix] name piece starting at w[i]"""
        out = []
        for pn, pe in [('', 0)] + list(self.prefixes.items()):
            if not w.startswith(pn, i): continue
            j = i + len(pn)
            for n, targets in self.names.items():
                if w.startswith(n, j):
                    for key, bias in targets: out.append((j + len(n), key, pe + bias))
        return out
    def readings(self, w, limit=2000):
        res = set()
        def go(i, acc):
            if len(res) > limit: return
            while i < len(w) and w[i] == '-' and acc: i += 1      # separators between pieces
            if i == len(w):
                if acc: res.add(tuple(acc))
                return
            for e, key, pre in self.pieces_at(w, i): go(e, acc + [(key, pre)])
        go(0, [])
        return res

# symbols fixed by the standards: symbol -> unit key of spec/units.py (scale and dimension are taken from there)
STANDARD = {
    'm': 'Meter', 's': 'Second', 'g': 'KiloGram', 'A': 'Ampere', 'K': 'Kelvin', 'mol': 'Mole', 'cd': 'Candela',
    'N': 'units::NEWTON', 'Pa': 'units::PASCAL', 'J': 'energy::JOULE', 'W': 'units::WATT', 'C': 'units::COULOMB', 'V': 'units::VOLT', 'F': 'units::FARAD',
    'Ω': 'units::OHM', 'S': 'units::SIEMENS', 'Wb': 'units::WEBER', 'T': 'units::TESLA', 'H': 'units::HENRY', 'lm': 'units::LUMEN', 'lx': 'units::LUX',
    'Bq': 'units::BECQUEREL', 'Gy': 'units::GRAY', 'Sv': 'units::SIEVERT', 'kat': 'units::KATAL',
    'min': 'time::MINUTE', 'h': 'time::HOUR', 'ha': 'area::HECTARE', 'l': 'volume::LITRE', 'L': 'volume::LITRE', 't': 'mass::TONNE', 'Da': 'mass::DALTON', 'eV': 'energy::ELECTRONVOLT', 'au': 'length::AU',
    '°C': 'temperature::CELSIUS', '°F': 'temperature::FAHRENHEIT',
    'in': 'length::INCH', 'ft': 'length::FOOT', 'yd': 'length::YARD', 'mi': 'length::MILE', 'lb': 'mass::POUND', 'oz': 'mass::OUNCE', 'gr': 'mass::GRAIN', 'gal': 'volume::GALLON', 'kt': 'velocity::KNOT',
}
