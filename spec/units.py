"""Independent reference table of units (C02, C05): SI dimension vector and exact scale to coherent SI.

Written by hand from: the SI brochure (9th ed., 2019: derived units with special names, defining constants e and c,
non-SI units accepted for use: min, h, d, ha, l, t, Da, eV, au), the international yard and pound agreement of 1959
(yd = 0.9144 m, lb = 0.45359237 kg) with the customary sub-multiples and multiples (in, ft, mi, chain, furlong, rod,
link, league, hand, thou, barleycorn, fathom = 2 yd; gr = lb/7000, dr = lb/256, oz = lb/16, st = 14 lb, qr = 28 lb,
cwt = 112 lb, long ton = 2240 lb), the international nautical mile (1852 m; cable = 1/10 NM; knot = NM/h),
US customary liquid measure (gal = 231 in^3; qt = gal/4, pt = gal/8, cup = gal/16, gill = gal/32, fl oz = gal/128,
tbsp = fl oz/2, tsp = tbsp/3), slug = lbf s^2/ft, standard gravity 9.80665 m/s^2, Julian year 365.25 d.
Nothing here is generated from /repo.  Keys are the last two path segments of the crate's `static` items.
"""
from fractions import Fraction as F

BASE = ['KiloGram', 'Candela', 'Meter', 'Second', 'Ampere', 'Kelvin', 'Mole', 'Byte']
def dim(**kw):
    short = {'kg': 'KiloGram', 'cd': 'Candela', 'm': 'Meter', 's': 'Second', 'A': 'Ampere', 'K': 'Kelvin', 'mol': 'Mole', 'B': 'Byte'}
    return {short[k]: v for k, v in kw.items() if v}

YD = F(9144, 10000); FT = YD / 3; IN = FT / 12; MI = 1760 * YD; CH = 22 * YD
LB = F(45359237, 100000000)
GAL = 231 * IN ** 3
NM = F(1852)
G0 = F(980665, 100000)
DAY = F(86400); YEAR = F(36525, 100) * DAY

# name -> (dims, scale, note)
UNITS = {
    # project-specific names for coherent SI combinations
    'units::VELOCITY': (dim(m=1, s=-1), F(1), 'm/s'),
    'units::ACCELERATION': (dim(m=1, s=-2), F(1), 'm/s^2'),
    'units::GFORCE': (dim(m=1, s=-2), G0, 'standard gravity'),
    'units::SPECIFIC_IMPULSE': (dim(s=1), F(1), 'seconds of specific impulse'),
    # SI derived units with special names
    'units::NEWTON': (dim(kg=1, m=1, s=-2), F(1), ''),
    'units::PASCAL': (dim(kg=1, m=-1, s=-2), F(1), ''),
    'energy::JOULE': (dim(kg=1, m=2, s=-2), F(1), ''),
    'units::WATT': (dim(kg=1, m=2, s=-3), F(1), ''),
    'units::COULOMB': (dim(s=1, A=1), F(1), ''),
    'units::VOLT': (dim(kg=1, m=2, s=-3, A=-1), F(1), ''),
    'units::FARAD': (dim(kg=-1, m=-2, s=4, A=2), F(1), ''),
    'units::OHM': (dim(kg=1, m=2, s=-3, A=-2), F(1), ''),
    'units::SIEMENS': (dim(kg=-1, m=-2, s=3, A=2), F(1), ''),
    'units::WEBER': (dim(kg=1, m=2, s=-2, A=-1), F(1), ''),
    'units::TESLA': (dim(kg=1, s=-2, A=-1), F(1), ''),
    'units::HENRY': (dim(kg=1, m=2, s=-2, A=-2), F(1), ''),
    'units::LUMEN': (dim(cd=1), F(1), 'cd sr'),
    'units::LUX': (dim(cd=1, m=-2), F(1), ''),
    'units::BECQUEREL': (dim(s=-1), F(1), ''),
    'units::GRAY': (dim(m=2, s=-2), F(1), ''),
    'units::SIEVERT': (dim(m=2, s=-2), F(1), ''),
    'units::KATAL': (dim(mol=1, s=-1), F(1), ''),
    # energy
    'energy::BTU': (dim(kg=1, m=2, s=-2), F(1055), 'conventional rounded value used by the project (IT Btu = 1055.05585262 J); pinned by the test-suite'),
    'energy::ELECTRONVOLT': (dim(kg=1, m=2, s=-2), F(1602176634, 10 ** 28), 'e = 1.602176634e-19 C exactly'),
    # area
    'area::HECTARE': (dim(m=2), F(10000), ''),
    'area::PERCH': (dim(m=2), (CH / 4) ** 2, 'square rod'),
    'area::ROOD': (dim(m=2), 10 * CH * (CH / 4), 'furlong x rod'),
    'area::ACRE': (dim(m=2), 10 * CH * CH, 'furlong x chain'),
    # length
    'length::AU': (dim(m=1), F(149597870700), 'IAU 2012'),
    'length::FATHOM': (dim(m=1), 2 * YD, '2 yd'),
    'length::CABLE': (dim(m=1), NM / 10, ''),
    'length::NAUTICAL_MILE': (dim(m=1), NM, ''),
    'length::LINK': (dim(m=1), CH / 100, ''),
    'length::ROD': (dim(m=1), CH / 4, ''),
    'length::THOU': (dim(m=1), IN / 1000, ''),
    'length::BARLEYCORN': (dim(m=1), IN / 3, ''),
    'length::INCH': (dim(m=1), IN, ''),
    'length::HAND': (dim(m=1), 4 * IN, ''),
    'length::FOOT': (dim(m=1), FT, ''),
    'length::YARD': (dim(m=1), YD, ''),
    'length::CHAIN': (dim(m=1), CH, ''),
    'length::FURLONG': (dim(m=1), 10 * CH, ''),
    'length::MILE': (dim(m=1), MI, ''),
    'length::LEAGUE': (dim(m=1), 3 * MI, ''),
    # mass
    'mass::TONNE': (dim(kg=1), F(1000), ''),
    'mass::DALTON': (dim(kg=1), F(166053906660, 10 ** 38), '1.66053906660e-27 kg (CODATA 2018)'),
    'mass::GRAIN': (dim(kg=1), LB / 7000, ''),
    'mass::DRACHM': (dim(kg=1), LB / 256, ''),
    'mass::OUNCE': (dim(kg=1), LB / 16, ''),
    'mass::POUND': (dim(kg=1), LB, ''),
    'mass::STONE': (dim(kg=1), 14 * LB, ''),
    'mass::QUARTER': (dim(kg=1), 28 * LB, ''),
    'mass::HUNDREDWEIGHT': (dim(kg=1), 112 * LB, 'long hundredweight'),
    'mass::TON': (dim(kg=1), 2240 * LB, 'long ton'),
    'mass::SLUG': (dim(kg=1), LB * G0 / FT, 'lbf s^2 / ft'),
    # temperature (offset scales: scale = size of the degree, offset = zero point in kelvin)
    'temperature::CELSIUS': (dim(K=1), F(1), 'offset 273.15'),
    'temperature::FAHRENHEIT': (dim(K=1), F(5, 9), 'offset 459.67 * 5/9'),
    # time
    'time::MINUTE': (dim(s=1), F(60), ''),
    'time::HOUR': (dim(s=1), F(3600), ''),
    'time::DAY': (dim(s=1), DAY, ''),
    'time::WEEK': (dim(s=1), 7 * DAY, ''),
    'time::MONTH': (dim(s=1), YEAR / 12, 'Julian year / 12'),
    'time::YEAR': (dim(s=1), YEAR, 'Julian year'),
    'time::DECADE': (dim(s=1), 10 * YEAR, ''),
    'time::CENTURY': (dim(s=1), 100 * YEAR, ''),
    'time::MILLENIUM': (dim(s=1), 1000 * YEAR, ''),
    # velocity
    'velocity::LIGHT_SPEED': (dim(m=1, s=-1), F(299792458), ''),
    'velocity::KNOT': (dim(m=1, s=-1), NM / 3600, ''),
    # volume
    'volume::LITRE': (dim(m=3), F(1, 1000), ''),
    'volume::CUBIC_CENTIMETER': (dim(m=3), F(1, 10 ** 6), ''),
    'volume::GALLON': (dim(m=3), GAL, 'US liquid gallon, 231 in^3'),
    'volume::PINT': (dim(m=3), GAL / 8, ''),
    'volume::QUART': (dim(m=3), GAL / 4, ''),
    'volume::CUP': (dim(m=3), GAL / 16, ''),
    'volume::GILL': (dim(m=3), GAL / 32, ''),
    'volume::FLUID_OUNCE': (dim(m=3), GAL / 128, ''),
    'volume::TABLE_SPOON': (dim(m=3), GAL / 256, ''),
    'volume::TEA_SPOON': (dim(m=3), GAL / 768, ''),
}
OFFSETS = {'temperature::CELSIUS': F(27315, 100), 'temperature::FAHRENHEIT': F(45967, 100) * F(5, 9)}

def key(static_name):
    """'units::time::MINUTE' / 'time::MINUTE' -> 'time::MINUTE'"""
    parts = static_name.split('::')
    if len(parts) == 1: parts = ['units'] + parts
    return '::'.join(parts[-2:])

def dims_of(name):
    if name in BASE: return {name: 1}
    return UNITS[key(name)][0]
def scale_of(name):
    if name in BASE: return F(1)
    return UNITS[key(name)][1]
def is_offset(name): return name not in BASE and key(name) in OFFSETS

def dims_of_compound(entries):
    """entries [(unit name, power, prefix)] -> {base: power} without zeros"""
    out = {}
    for u, p, _ in entries:
        for b, k in dims_of(u).items():
            out[b] = out.get(b, 0) + k * p
    return {b: k for b, k in out.items() if k != 0}
def prefix_bias(name): return 3 if name == 'KiloGram' else 0
def si_factor(entries):
    """value of 1 <compound> in coherent SI (non-offset)"""
    f = F(1)
    for u, p, pre in entries:
        f *= (F(10) ** pre * scale_of(u)) ** p
    return f

PREFIXES = {'Y': 24, 'Z': 21, 'E': 18, 'P': 15, 'T': 12, 'G': 9, 'M': 6, 'k': 3, 'h': 2, 'da': 1, '': 0,
            'd': -1, 'c': -2, 'm': -3, 'μ': -6, 'n': -9, 'p': -12, 'f': -15, 'a': -18, 'z': -21, 'y': -24}
