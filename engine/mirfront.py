"""MIR front end: dumps rustc MIR for /repo's *current working tree* and parses it.

The dump is regenerated whenever the content hash of the sources changes; nothing else is cached between
runs (no verification condition is ever stored).  /repo is never written: cargo runs with its target dir
under /verif/.cache.
"""
import hashlib, os, subprocess, sys, glob, time, shutil, fcntl
import mirparse as mp

REPO = os.environ.get('VERIF_REPO', '/repo')
CACHE = os.environ.get('VERIF_CACHE') or os.path.join(os.path.dirname(os.path.dirname(os.path.abspath(__file__))), '.cache')

def source_hash():
    h = hashlib.sha256()
    files = sorted(glob.glob(REPO + '/src/**/*.rs', recursive=True)) + [REPO + '/Cargo.toml', REPO + '/Cargo.lock', REPO + '/tools/gen/data.toml']
    files += sorted(glob.glob(REPO + '/db/*'))
    for f in files:
        try:
            data = open(f, 'rb').read()
        except OSError:
            continue
        h.update(f.encode()); h.update(b'\0'); h.update(hashlib.sha256(data).digest())
    return h.hexdigest()[:20]

PROFILES = {
    # what the test-suite builds: overflow checks and debug assertions on
    'dev': dict(args=['--lib'], env={}),
    # what users run: wrapping arithmetic, no debug assertions.  opt-level 0 keeps MIR inlining off.
    'release': dict(args=['--release', '--lib'], env={'CARGO_PROFILE_RELEASE_OPT_LEVEL': '0'}),
    'bin': dict(args=['--bin', 'any'], env={}),
}

class BuildError(Exception):
    pass

def dump(profile):
    """returns path of the MIR text for the current tree (dumping it if needed)"""
    os.makedirs(CACHE + '/mir', exist_ok=True)
    key = source_hash()
    out = f'{CACHE}/mir/{key}.{profile}.mir'
    if os.path.exists(out) and os.path.getsize(out) > 1000:
        return out
    lock = open(f'{CACHE}/mir/.lock.{profile}', 'w')
    fcntl.flock(lock, fcntl.LOCK_EX)
    try:
        if os.path.exists(out) and os.path.getsize(out) > 1000:
            return out
        p = PROFILES[profile]
        tdir = f'{CACHE}/mir-target'
        # force cargo to re-run rustc for the crate itself (a fresh fingerprint would print nothing)
        sub = 'release' if profile == 'release' else 'debug'
        for d in glob.glob(f'{tdir}/{sub}/.fingerprint/anything-*'):
            shutil.rmtree(d, ignore_errors=True)
        env = dict(os.environ)
        env.update(p['env'])
        env.update({'CARGO_TARGET_DIR': tdir, 'CARGO_NET_OFFLINE': 'true'})
        env.pop('RUSTFLAGS', None)
        cmd = ['cargo', '+nightly', 'rustc', '--offline', '--manifest-path', REPO + '/Cargo.toml'] + p['args'] + ['--', '-Zunpretty=mir']
        t = time.time()
        r = subprocess.run(cmd, env=env, stdout=subprocess.PIPE, stderr=subprocess.PIPE, cwd=REPO)
        if r.returncode != 0 or len(r.stdout) < 1000:
            raise BuildError(f'MIR dump failed ({profile}):\n' + r.stderr.decode(errors='replace')[-3000:])
        tmp = out + '.tmp%d' % os.getpid()
        open(tmp, 'wb').write(r.stdout)
        os.replace(tmp, out)
        # drop stale dumps of other trees
        for f in glob.glob(f'{CACHE}/mir/*.{profile}.mir'):
            if f != out:
                try: os.remove(f)
                except OSError: pass
        sys.stderr.write(f'[mirfront] dumped {profile} MIR in {time.time() - t:.1f}s -> {out}\n')
        return out
    finally:
        fcntl.flock(lock, fcntl.LOCK_UN)

def expanded():
    """macro-expanded source of the lib (rustc -Zunpretty=expanded): used only to read the declaration order of enums that
    exist after macro expansion only (the logos `Jump` tables)"""
    os.makedirs(CACHE + '/mir', exist_ok=True)
    key = source_hash()
    out = f'{CACHE}/mir/{key}.expanded.rs'
    if os.path.exists(out) and os.path.getsize(out) > 1000: return out
    lock = open(f'{CACHE}/mir/.lock.dev', 'w')
    fcntl.flock(lock, fcntl.LOCK_EX)
    try:
        if os.path.exists(out) and os.path.getsize(out) > 1000: return out
        tdir = f'{CACHE}/mir-target'
        for d in glob.glob(f'{tdir}/debug/.fingerprint/anything-*'):
            shutil.rmtree(d, ignore_errors=True)
        env = dict(os.environ); env.update({'CARGO_TARGET_DIR': tdir, 'CARGO_NET_OFFLINE': 'true'}); env.pop('RUSTFLAGS', None)
        cmd = ['cargo', '+nightly', 'rustc', '--offline', '--manifest-path', REPO + '/Cargo.toml', '--lib', '--', '-Zunpretty=expanded']
        r = subprocess.run(cmd, env=env, stdout=subprocess.PIPE, stderr=subprocess.PIPE, cwd=REPO)
        if r.returncode != 0 or len(r.stdout) < 1000:
            raise BuildError('macro expansion failed:\n' + r.stderr.decode(errors='replace')[-3000:])
        tmp = out + '.tmp%d' % os.getpid()
        open(tmp, 'wb').write(r.stdout); os.replace(tmp, out)
        for f in glob.glob(f'{CACHE}/mir/*.expanded.rs'):
            if f != out:
                try: os.remove(f)
                except OSError: pass
        return out
    finally:
        fcntl.flock(lock, fcntl.LOCK_UN)

_loaded = {}
def load(profile):
    """returns (bodies, allocs) parsed from the current tree's MIR"""
    if profile in _loaded: return _loaded[profile]
    path = dump(profile)
    bodies, allocs = mp.parse_mir(open(path).read())
    _loaded[profile] = (bodies, allocs)
    return _loaded[profile]

if __name__ == '__main__':
    for prof in sys.argv[1:] or ['dev']:
        print(dump(prof))
