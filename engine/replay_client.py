"""Builds /verif/replay against /repo's current working tree (dev and release profile) and runs concrete cases."""
import os, subprocess, json, sys, fcntl, time
ROOT = os.path.dirname(os.path.dirname(os.path.abspath(__file__)))
TARGET = os.path.join(ROOT, '.cache', 'replay-target')
MANIFEST = os.path.join(ROOT, 'replay', 'Cargo.toml')
# development aid: VERIF_REPO / VERIF_CACHE point the whole pipeline (MIR dump and replay) at another checkout
if os.environ.get('VERIF_REPO') and os.environ.get('VERIF_CACHE'):
    import shutil, filecmp
    _alt = os.path.join(os.environ['VERIF_CACHE'], 'replay')
    _src = os.path.join(ROOT, 'replay')
    def _same():
        try: return filecmp.cmp(os.path.join(_src, 'src', 'main.rs'), os.path.join(_alt, 'src', 'main.rs'), shallow=False) and os.path.exists(os.path.join(_alt, 'Cargo.toml'))
        except OSError: return False
    if not _same():
        shutil.rmtree(_alt, ignore_errors=True); shutil.copytree(_src, _alt, ignore=shutil.ignore_patterns('target'))
        _t = open(os.path.join(_alt, 'Cargo.toml')).read().replace('path = "/repo"', 'path = "%s"' % os.environ['VERIF_REPO'])
        open(os.path.join(_alt, 'Cargo.toml'), 'w').write(_t)
    MANIFEST = os.path.join(_alt, 'Cargo.toml'); TARGET = os.path.join(os.environ['VERIF_CACHE'], 'replay-target')
_built = {}

def build(profile):
    if profile in _built: return _built[profile]
    os.makedirs(os.path.dirname(TARGET), exist_ok=True)
    lock = open(os.path.join(os.path.dirname(TARGET), '.replay.lock'), 'w')
    fcntl.flock(lock, fcntl.LOCK_EX)
    try:
        env = dict(os.environ); env['CARGO_NET_OFFLINE'] = 'true'
        env['RUSTFLAGS'] = '--cfg anything_verif'
        cmd = ['cargo', 'build', '--offline', '--quiet', '--manifest-path', MANIFEST, '--target-dir', TARGET]
        if profile == 'release': cmd.append('--release')
        t = time.time()
        r = subprocess.run(cmd, env=env, stdout=subprocess.PIPE, stderr=subprocess.PIPE)
        if r.returncode != 0:
            raise RuntimeError('replay build failed (%s):\n%s' % (profile, r.stderr.decode(errors='replace')[-3000:]))
        path = os.path.join(TARGET, 'release' if profile == 'release' else 'debug', 'verif-replay')
        _built[profile] = path
        return path
    finally:
        fcntl.flock(lock, fcntl.LOCK_UN)

def run_profile(cases, profile, env_extra=None, timeout=600):
    exe = build(profile)
    data = '\n'.join(json.dumps(c, ensure_ascii=False) for c in cases) + '\n'
    env = dict(os.environ)
    env['XDG_DATA_HOME'] = os.path.join(os.path.dirname(TARGET), 'xdg-data')
    env['HOME'] = os.path.join(os.path.dirname(TARGET), 'home')
    if env_extra: env.update(env_extra)
    outs = []
    # a hard crash (abort, stack overflow) kills the process: restart after the offending case
    i = 0
    while i < len(cases):
        chunk = cases[i:]
        data = '\n'.join(json.dumps(c, ensure_ascii=False) for c in chunk) + '\n'
        try:
            r = subprocess.run([exe], input=data.encode(), stdout=subprocess.PIPE, stderr=subprocess.PIPE, env=env, timeout=timeout)
            lines = [l for l in r.stdout.decode(errors='replace').split('\n') if l.strip()]
            rc = r.returncode
        except subprocess.TimeoutExpired as e:
            lines = [l for l in (e.stdout or b'').decode(errors='replace').split('\n') if l.strip()]
            rc = 'timeout'
        for l in lines:
            try: outs.append(json.loads(l))
            except ValueError: outs.append({'err': 'unparsable replay output', 'raw': l[:200]})
        i += len(lines)
        if i < len(cases) and len(lines) < len(chunk):
            outs.append({'panic': f'process died (status {rc}) on this case'} if rc != 'timeout' else {'hang': f'no answer within {timeout}s'})
            i += 1
    return outs

def run_cases(cases, profiles=('dev',), env_extra=None, timeout=600):
    """returns [ {profile: output} per case ]"""
    per = {p: run_profile(cases, p, env_extra, timeout) for p in profiles}
    return [{p: per[p][i] for p in profiles} for i in range(len(cases))]

if __name__ == '__main__':
    for p in sys.argv[1:] or ['dev', 'release']:
        print(build(p))
