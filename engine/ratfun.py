"""Normal form of rational-function terms, used to hand z3 an *expanded polynomial* disequality instead of a nested
quotient one.

A z3 Real term built from variables, rational constants, + - * / and ToReal(Int var) is rewritten as N/D with N, D
polynomials (dict monomial -> Fraction; monomial = sorted tuple of (variable name, exponent)); no factor is ever
cancelled, so D is exactly the product of the divisors that occur in the term: if every divisor of the original term is
non-zero (which the path condition of an Ok path states), then D != 0 and  a == b  <=>  Na*Db - Nb*Da == 0.
The deciding step stays with the solver: it receives PC and `P != 0` for the expanded polynomial P (for a correct
implementation P is the zero polynomial and the query is trivially unsat; otherwise z3 finds leaf values with P != 0).
"""
import z3
from fractions import Fraction

class NotRational(Exception): pass

def p_const(c): return {(): Fraction(c)} if c != 0 else {}
def p_var(name): return {((name, 1),): Fraction(1)}
def p_add(a, b, sign=1):
    out = dict(a)
    for m, c in b.items():
        v = out.get(m, 0) + sign * c
        if v == 0: out.pop(m, None)
        else: out[m] = v
    return out
def m_mul(m1, m2):
    d = dict(m1)
    for v, e in m2: d[v] = d.get(v, 0) + e
    return tuple(sorted(d.items()))
def p_mul(a, b):
    out = {}
    for m1, c1 in a.items():
        for m2, c2 in b.items():
            m = m_mul(m1, m2); v = out.get(m, 0) + c1 * c2
            if v == 0: out.pop(m, None)
            else: out[m] = v
    if len(out) > 20000: raise NotRational('polynomial too large')
    return out

def normal(e, vars_):
    """z3 arithmetic term (or python number) -> (N, D)"""
    if isinstance(e, (int, Fraction)): return p_const(e), p_const(1)
    if z3.is_rational_value(e) or z3.is_int_value(e):
        return p_const(Fraction(e.numerator_as_long(), e.denominator_as_long()) if z3.is_rational_value(e) else e.as_long()), p_const(1)
    k = e.decl().kind()
    ch = e.children()
    if k == z3.Z3_OP_UNINTERPRETED:
        # a variable, or an application of an uninterpreted function (pow10(e)): an atom of the polynomial
        vars_[e.sexpr()] = e; return p_var(e.sexpr()), p_const(1)
    if k == z3.Z3_OP_TO_REAL: return normal(ch[0], vars_)
    if k == z3.Z3_OP_ADD or k == z3.Z3_OP_SUB:
        n, d = normal(ch[0], vars_)
        for c in ch[1:]:
            n2, d2 = normal(c, vars_)
            n = p_add(p_mul(n, d2), p_mul(n2, d), 1 if k == z3.Z3_OP_ADD else -1); d = p_mul(d, d2)
        return n, d
    if k == z3.Z3_OP_UMINUS:
        n, d = normal(ch[0], vars_); return p_mul(n, p_const(-1)), d
    if k == z3.Z3_OP_MUL:
        n, d = p_const(1), p_const(1)
        for c in ch:
            n2, d2 = normal(c, vars_); n = p_mul(n, n2); d = p_mul(d, d2)
        return n, d
    if k in (z3.Z3_OP_DIV, z3.Z3_OP_IDIV) and k == z3.Z3_OP_DIV:
        n1, d1 = normal(ch[0], vars_); n2, d2 = normal(ch[1], vars_)
        return p_mul(n1, d2), p_mul(d1, n2)
    if k == z3.Z3_OP_POWER:
        b = ch[1]
        if z3.is_int_value(b) or (z3.is_rational_value(b) and b.denominator_as_long() == 1):
            ex = b.as_long() if z3.is_int_value(b) else b.numerator_as_long()
            n, d = normal(ch[0], vars_)
            if ex < 0: n, d = d, n; ex = -ex
            rn, rd = p_const(1), p_const(1)
            for _ in range(ex): rn = p_mul(rn, n); rd = p_mul(rd, d)
            return rn, rd
    raise NotRational(f'operator {e.decl().name()}')

def to_z3(p, vars_):
    if not p: return z3.RealVal(0)
    terms = []
    for m, c in p.items():
        fs = [z3.RealVal(f'{c.numerator}/{c.denominator}')] if c != 1 or not m else []
        for v, ex in m:
            x = vars_[v]
            if z3.is_int(x): x = z3.ToReal(x)
            fs += [x] * ex
        terms.append(z3.Product(fs) if len(fs) > 1 else fs[0])
    return z3.Sum(terms) if len(terms) > 1 else terms[0]

def difference(a, b):
    """(P, vars, trivially_zero): P = Na*Db - Nb*Da expanded; raises NotRational if a or b is not a rational-function term"""
    vars_ = {}
    na, da = normal(a if isinstance(a, (int, Fraction)) else z3.simplify(a), vars_)
    nb, db = normal(b if isinstance(b, (int, Fraction)) else z3.simplify(b), vars_)
    p = p_add(p_mul(na, db), p_mul(nb, da), -1)
    return to_z3(p, vars_), vars_, not p
