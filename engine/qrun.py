"""Running the crate's whole query pipeline from MIR: Parser::new + parse_root (real lexer, real grammar, syntree model),
then the Query iterator / eval::eval on every root node.

Two harness-level cuts, both opt-in per path through I.path_state:
  * 'leaves'  : {(char lo, char hi): Real expr}  -- `<Rational as FromStr>::from_str` on exactly that slice of the query
                returns the given symbolic rational instead of reading digits (C07 proves the cut function equal to the
                literal's value); any other slice runs the real from_str.
  * 'ints'    : {(char lo, char hi): Int expr}   -- `str::parse::<i32>` on exactly that slice returns the given symbolic i32
                (unit exponents `^n`); any other slice runs the real integer parser model.
  * 'lookup'  : callable(I, StrS) -> Result<Option<Match>>  -- environment stub of Db::lookup (tantivy); absent = panic.
"""
import re, z3
from mirsym import *
from models import model, M as MODELS
from models.core import some, none, ok, err, deref
from models.strings import StrS, gs
from models import coll
import rt

_installed = False
def install(I):
    """put the two cut models in front of the model table (once per process)"""
    global _installed
    if _installed: return
    _installed = True
    def from_str_cut(I, m, a, dt):
        leaves = I.path_state.get('leaves')
        if leaves is None: raise Fallthrough()
        s = gs(I, a[0])
        key = (s.lo, s.hi)
        if key not in leaves: raise Fallthrough()
        I.path_state.setdefault('leaves_read', []).append(key)
        return ok(rt.rational(leaves[key]))
    def db_lookup(I, m, a, dt):
        if I.path_state.get('real_lookup'): raise Fallthrough()      # execute the crate's own Db::lookup (tantivy calls are stubs)
        f = I.path_state.get('lookup')
        if f is None: raise PathEnd('panic', 'Db::lookup reached without an environment stub')
        return f(I, gs(I, a[1]))
    def int_parse_cut(I, m, a, dt):
        ints = I.path_state.get('ints')
        if ints is None: raise Fallthrough()
        s = gs(I, a[0]); key = (s.lo, s.hi)
        if key not in ints: raise Fallthrough()
        return ok(VInt(ints[key], 'i32'))
    MODELS.insert(0, (re.compile(r'^core::str::<impl str>::parse::<i32>$|^<i32 as (?:std::str::)?FromStr>::from_str$'), int_parse_cut))
    MODELS.insert(0, (re.compile(r'^<(?:rational::)?Rational as (?:std::str::)?FromStr>::from_str$'), from_str_cut))
    MODELS.insert(0, (re.compile(r"^(?:db::)?Db::lookup$"), db_lookup))
    I.model_cache.clear()

class QueryRun:
    def __init__(self): self.parse = None; self.tree = None; self.results = []; self.descriptions = None

def run_query(I, s, describe=False, max_results=64, evaluate=True):
    """s: StrS (the query text).  Returns QueryRun; .parse is the Result of parse_root, .results the list of
    Result<Numeric, Error> values the Query iterator produced."""
    install(I)
    out = QueryRun()
    r = rt.parse_root(I, s)
    out.parse = r
    if r.variant != 'Ok': return out
    tree = r.items[0]; out.tree = tree
    if not evaluate: return out
    descs = Cell(coll.vec([]))
    db = I.path_state.get('dbref') or VRef(Cell(VObj('db')), [])
    # the Query is built by the crate's own `query::query` (so whatever state it carries is the crate's)
    QUERY = rt.find_fn(I, 'query', contains='Parsed', nargs=4)
    parsed = VStruct('query::Parsed', [VRef(Cell(s), []), tree])
    q = I.run_body(QUERY, [VRef(Cell(parsed), []), db, VStruct('query::Options', [VBool(describe)]), VRef(descs, [])])
    qc = Cell(q)
    for _ in range(max_results):
        x = I.call("<Query<'_> as Iterator>::next", [VRef(qc, [])])
        if x.variant == 'None': break
        out.results.append(x.items[0])
    else:
        raise PathEnd('bound', 'more than max_results results')
    out.descriptions = descs.val
    return out

def err_kind(r):
    """ErrorKind variant name of a Result::Err(Error { span, kind })"""
    return r.items[0].items[1].variant
def err_span(r):
    sp = r.items[0].items[0]
    return sp.items[0].v, sp.items[1].v
