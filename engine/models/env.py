"""placeholder"""
from mirsym import *
from . import model, ITER_NEXT
