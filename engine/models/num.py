"""num::BigInt as SMT Int, num::rational::Ratio<BigInt> as SMT Real (exact: they are mathematical integers/rationals).

Rounding operations never use `to_int` or unbounded witnesses when they can avoid it: a symbolic rational that reaches
trunc/round/is_integer is decomposed as integer part + fractional part (k + f, 0 <= f < 1), using decompositions the
harness registered for its inputs (I.path_state['decomp']) or syntactic integrality; only as a last resort a fresh
unbounded decomposition is introduced (noted on the path as 'unbounded-decomp').
"""
import re, z3
from fractions import Fraction
from mirsym import *
from . import model
from .core import some, none, ok, err, deref

BIG = r'(?:num::|num_bigint::)?(?:bigint::)?BigInt'
RATIO = r'(?:num::rational::|num_rational::)?Ratio<' + BIG + r'>'
RATIO_T = r'(?:num::rational::|num_rational::)?Ratio::<' + BIG + r'>'

pow10 = z3.Function('pow10', z3.IntSort(), z3.IntSort())

def pow10_term(I, e):
    """10^e for a symbolic non-negative exponent: uninterpreted, with pow10 > 0 and the exact values for e <= 3"""
    e = z3.simplify(iz(e))
    if z3.is_int_value(e): return 10 ** e.as_long()
    t = pow10(e)
    I.assume(z3.And([t > 0] + [z3.Implies(e == k, t == 10 ** k) for k in range(4)]))
    return t

def is_c(x): return isinstance(x, (int, Fraction)) and not isinstance(x, bool)
def rz(x):
    """to z3 Real"""
    if isinstance(x, int): return z3.RealVal(x)
    if isinstance(x, Fraction): return z3.RealVal(str(x.numerator) + '/' + str(x.denominator)) if x.denominator != 1 else z3.RealVal(x.numerator)
    if z3.is_int(x): return z3.ToReal(x)
    return x
def iz(x):
    if isinstance(x, int): return z3.IntVal(x)
    return x
def radd(x, y): return x + y if is_c(x) and is_c(y) else rz(x) + rz(y)
def rsub(x, y): return x - y if is_c(x) and is_c(y) else rz(x) - rz(y)
def rmul(x, y):
    if is_c(x) and is_c(y): return x * y
    if is_c(x) and x == 1: return rz(y)
    if is_c(y) and y == 1: return rz(x)
    return rz(x) * rz(y)
def rdiv(x, y):
    if is_c(x) and is_c(y): return Fraction(x) / Fraction(y)
    if is_c(y): return rz(x) * rz(Fraction(1) / Fraction(y))
    return rz(x) / rz(y)
def rneg(x): return -x if is_c(x) else -rz(x)
def req(x, y): return (x == y) if is_c(x) and is_c(y) else rz(x) == rz(y)
def rlt(x, y): return (x < y) if is_c(x) and is_c(y) else rz(x) < rz(y)

def int_valued(e):
    """if the Real expression e is syntactically integer-valued return an Int expression equal to it, else None"""
    if isinstance(e, int): return e
    if isinstance(e, Fraction): return e.numerator if e.denominator == 1 else None
    if z3.is_int(e): return e
    if z3.is_rational_value(e):
        return z3.IntVal(e.numerator_as_long()) if e.denominator_as_long() == 1 else None
    k = e.decl().kind()
    if k == z3.Z3_OP_TO_REAL: return e.arg(0)
    if k in (z3.Z3_OP_ADD, z3.Z3_OP_MUL, z3.Z3_OP_SUB):
        parts = [int_valued(c) for c in e.children()]
        if any(p is None for p in parts): return None
        parts = [iz(p) for p in parts]
        if k == z3.Z3_OP_ADD: return z3.Sum(parts)
        if k == z3.Z3_OP_MUL: return z3.Product(parts)
        r = parts[0]
        for p in parts[1:]: r = r - p
        return r
    if k == z3.Z3_OP_UMINUS:
        p = int_valued(e.arg(0)); return None if p is None else -iz(p)
    if k == z3.Z3_OP_ITE:
        a, b = int_valued(e.arg(1)), int_valued(e.arg(2))
        if a is None or b is None: return None
        return z3.If(e.arg(0), iz(a), iz(b))
    return None

def int_frac(I, e):
    """e = k + f with k Int, 0 <= f < 1; returns (k, f) (python numbers when e is concrete)"""
    if is_c(e):
        e = Fraction(e); k = e.numerator // e.denominator
        return k, e - k
    e = z3.simplify(rz(e))
    iv = int_valued(e)
    if iv is not None: return iv, 0
    for (x, k, f) in I.path_state.get('decomp', []):
        d = z3.simplify(e - x)
        if z3.is_rational_value(d) and d.denominator_as_long() == 1:
            return k + d.numerator_as_long(), f
    k = I.fresh_int('ipart'); f = I.fresh_real('fpart')
    I.assume(z3.And(e == z3.ToReal(k) + f, f >= 0, f < 1))
    I.path_state.setdefault('decomp', []).append((e, k, f))
    I.notes.append('unbounded-decomp')
    return k, f

def register_decomp(I, x, k, f):
    I.path_state.setdefault('decomp', []).append((z3.simplify(rz(x)), k, f))

def rat_arg(I, v):
    v = deref(I, v)
    if isinstance(v, VRat): return v.v
    if isinstance(v, VBig): return v.v
    if isinstance(v, VInt): return v.v
    if isinstance(v, VStruct) and len(v.items) == 1: return rat_arg(I, v.items[0])   # newtype Rational
    raise Unsupported(f'rat_arg {v!r}')
def big_arg(I, v):
    v = deref(I, v)
    if isinstance(v, (VBig, VInt)): return v.v
    if isinstance(v, VObj) and v.kind == 'numer_of': return numer_int(I, v)
    if isinstance(v, VObj) and v.kind == 'denom_of': return denom_int(I, v)
    raise Unsupported(f'big_arg {v!r}')

def numer_int(I, o):
    if o.nd: return o.nd[0]
    v = o.rat
    if is_c(v): return Fraction(v).numerator
    k, f = int_frac(I, v)
    if I.branch(req(f, 0)): return k
    raise Unsupported('numerator of a symbolic non-integer rational')
def denom_int(I, o):
    if o.nd: return o.nd[1]
    v = o.rat
    if is_c(v): return Fraction(v).denominator
    k, f = int_frac(I, v)
    if I.branch(req(f, 0)): return 1
    raise Unsupported('denominator of a symbolic non-integer rational')

# ---- BigInt ----
@model(r'^<(\w+) as Into<' + BIG + r'>>::into$|^<' + BIG + r' as From<(\w+)>>::from$')
def big_from(I, m, a, dt): return VBig(a[0].v)
@model(r'^<' + BIG + r' as Clone>::clone$')
def big_clone(I, m, a, dt): return VBig(big_arg(I, a[0]))
@model(r'^' + BIG + r'::pow$|^<&?' + BIG + r' as (?:num::traits::|num_traits::)?Pow<u32>>::pow$')
def big_pow(I, m, a, dt):
    base = big_arg(I, a[0]); e = a[1].v
    if is_conc(e):
        if is_conc(base): return VBig(base ** e)
        return VBig(z3.Product([base] * e) if e > 0 else 1)
    if is_conc(base) and base == 10:
        I.notes.append('pow10-uninterpreted')
        return VBig(pow10_term(I, e))
    k = I.concretize(e, limit=I.params.get('pow_bound', 8) + 1, what='BigInt::pow exponent')
    return VBig(base ** k if is_conc(base) else (z3.Product([base] * k) if k else 1))
@model(r'^<&?' + BIG + r' as (?:std::ops::)?(Add|Sub|Mul|Div|Rem)<?.*>?>::(add|sub|mul|div|rem)$')
def big_binop(I, m, a, dt):
    x = big_arg(I, a[0]); y = big_arg(I, a[1]); op = m.group(2)
    return VBig(big_op(I, op, x, y))
def big_op(I, op, x, y):
    if op == 'add': return x + y
    if op == 'sub':
        # x - d*q where q is the quotient witness of x by d: that is the remainder witness (keeps long division flat)
        if not is_conc(x) and not is_conc(y):
            for (xk, d), (q, r) in I.path_state.get('divwit', {}).items():
                if z3.is_true(z3.simplify(iz(y) == q * d)) and z3.simplify(iz(x)).sexpr() == xk: return r
        return x - y
    if op == 'mul': return x * y
    if op in ('div', 'rem'):
        if I.branch(y == 0): raise PathEnd('panic', 'BigInt division by zero')
        if is_conc(x) and is_conc(y):
            q = abs(x) // abs(y) * (1 if (x >= 0) == (y >= 0) else -1)
            return q if op == 'div' else x - q * y
        # truncating division; the harness keeps operands non-negative where it matters
        nonneg = I.check(z3.Or(iz(x) < 0, iz(y) < 0)) == z3.unsat
        if nonneg and is_conc(y) and not is_conc(x):
            # division by a positive constant: fresh quotient/remainder witnesses (x = q*y + r, 0 <= r < y) keep the
            # constraints linear and flat instead of nesting div terms (long division, digit counting)
            key = (z3.simplify(iz(x)).sexpr(), y)
            wit = I.path_state.setdefault('divwit', {})
            if key not in wit:
                q = I.fresh_int('quo'); r = I.fresh_int('rem')
                I.assume(z3.And(iz(x) == q * y + r, r >= 0, r < y, q >= 0))
                wit[key] = (q, r)
            q, r = wit[key]
            return q if op == 'div' else r
        if nonneg:
            return iz(x) / iz(y) if op == 'div' else iz(x) % iz(y)
        ax = z3.If(iz(x) < 0, -iz(x), iz(x)); ay = z3.If(iz(y) < 0, -iz(y), iz(y))
        q = z3.If((iz(x) < 0) == (iz(y) < 0), ax / ay, -(ax / ay))
        return q if op == 'div' else iz(x) - q * iz(y)
    raise Unsupported('big op ' + op)
@model(r'^<' + BIG + r' as (?:std::ops::)?(Add|Sub|Mul|Div|Rem)Assign<?.*>?>::(add|sub|mul|div|rem)_assign$')
def big_opassign(I, m, a, dt):
    x = big_arg(I, a[0]); y = big_arg(I, a[1])
    I.write_ref(a[0], VBig(big_op(I, m.group(2), x, y))); return VUnit()
@model(r'^<' + BIG + r' as (?:std::ops::)?Neg>::neg$')
def big_neg(I, m, a, dt): return VBig(-big_arg(I, a[0]))
@model(r'^<' + BIG + r' as (?:num::|num_traits::)?(?:identities::)?(Zero|One)>::(is_zero|is_one|zero|one)$')
def big_zero_one(I, m, a, dt):
    k = m.group(2)
    if k == 'zero': return VBig(0)
    if k == 'one': return VBig(1)
    v = deref(I, a[0])
    if isinstance(v, VObj) and v.kind == 'denom_of' and not v.nd:
        if k == 'is_zero': return VBool(False)
        if is_c(v.rat): return VBool(Fraction(v.rat).denominator == 1)
        kk, f = int_frac(I, v.rat)
        return VBool(req(f, 0))
    if isinstance(v, VObj) and v.kind == 'numer_of' and not v.nd and k == 'is_zero':
        return VBool(req(v.rat, 0))
    if isinstance(v, VObj) and v.kind == 'numer_of' and not v.nd and k == 'is_one' and not is_c(v.rat):
        # the numerator of x (in lowest terms) is 1  <=>  x > 0 and 1/x is a whole number
        x = rz(v.rat)
        kk, f = int_frac(I, 1 / x)
        return VBool(z3.And(x > 0, req(f, 0)))
    x = big_arg(I, v)
    return VBool(x == (0 if k == 'is_zero' else 1))
@model(r'^<' + BIG + r' as (?:num::|num_traits::)?(?:sign::)?Signed>::(abs|signum|is_negative|is_positive)$')
def big_signed(I, m, a, dt):
    x = big_arg(I, a[0]); k = m.group(1)
    if k == 'abs':
        if is_conc(x): return VBig(abs(x))
        if I.check(x < 0) == z3.unsat: return VBig(x)
        if I.check(x > 0) == z3.unsat: return VBig(z3.simplify(-x))
        return VBig(z3.If(x < 0, -x, x))
    if k == 'signum': return VBig(((x > 0) - (x < 0)) if is_conc(x) else z3.If(x > 0, 1, z3.If(x < 0, -1, 0)))
    return VBool(x < 0 if k == 'is_negative' else x > 0)
@model(r'^' + BIG + r'::sign$')
def big_sign(I, m, a, dt):
    x = big_arg(I, a[0])
    i = I.choose([x < 0, x == 0, True])
    return VEnum('Sign', ['Minus', 'NoSign', 'Plus'][i], [])
@model(r'^<' + BIG + r' as (?:num::|num_traits::)?(?:cast::)?ToPrimitive>::to_(u8|u16|u32|u64|usize|i8|i16|i32|i64|isize|u128|i128)$')
def big_to_prim(I, m, a, dt):
    x = big_arg(I, a[0]); ty = m.group(1); lo, hi = INT_RANGE[ty]
    if I.branch(zand(x >= lo, x <= hi)): return some(VInt(x, ty))
    return none()
@model(r'^<' + BIG + r' as (?:std::cmp::)?PartialEq>::(eq|ne)$')
def big_eq(I, m, a, dt):
    r = big_arg(I, a[0]) == big_arg(I, a[1])
    return VBool(r if m.group(1) == 'eq' else znot(r))
@model(r'^<' + BIG + r' as (?:std::cmp::)?(?:PartialOrd|Ord)>::(lt|le|gt|ge)$')
def big_ord(I, m, a, dt):
    x = big_arg(I, a[0]); y = big_arg(I, a[1])
    return VBool({'lt': x < y, 'le': x <= y, 'gt': x > y, 'ge': x >= y}[m.group(1)])

# ---- Ratio<BigInt> ----
@model(r'^' + RATIO_T + r'::(new|new_raw)$')
def ratio_new(I, m, a, dt):
    n, d = big_arg(I, a[0]), big_arg(I, a[1])
    if I.branch(d == 0): raise PathEnd('panic', 'Ratio::new denominator == 0')
    return VRat(rdiv(n, d))
@model(r'^' + RATIO_T + r'::from_integer$|^<' + RATIO + r' as From<' + BIG + r'>>::from$')
def ratio_from_integer(I, m, a, dt): return VRat(rz(big_arg(I, a[0])) if not is_conc(big_arg(I, a[0])) else big_arg(I, a[0]))
@model(r'^<&?' + RATIO + r' as (?:std::ops::)?(Add|Sub|Mul|Div)(?:<.*>)?>::(add|sub|mul|div)$')
def ratio_binop(I, m, a, dt):
    return VRat(ratio_op(I, m.group(2), rat_arg(I, a[0]), rat_arg(I, a[1])))
def ratio_op(I, op, x, y):
    if op == 'div':
        if I.branch(req(y, 0)): raise PathEnd('panic', 'Ratio division by zero')
        return rdiv(x, y)
    return {'add': radd, 'sub': rsub, 'mul': rmul}[op](x, y)
@model(r'^<' + RATIO + r' as (?:std::ops::)?(Add|Sub|Mul|Div)Assign(?:<.*>)?>::(add|sub|mul|div)_assign$')
def ratio_opassign(I, m, a, dt):
    r = ratio_op(I, m.group(2), rat_arg(I, a[0]), rat_arg(I, a[1]))
    I.write_ref(a[0], VRat(r)); return VUnit()
@model(r'^<&?' + RATIO + r' as (?:std::ops::)?Neg>::neg$')
def ratio_neg(I, m, a, dt): return VRat(rneg(rat_arg(I, a[0])))
@model(r'^<' + RATIO + r' as Clone>::clone$')
def ratio_clone(I, m, a, dt):
    v = deref(I, a[0]); return VRat(v.v, v.nd)
@model(r'^<&?' + RATIO + r' as (?:num::traits::|num_traits::)?(?:pow::)?Pow<i32>>::pow$|^' + RATIO_T + r'::pow$')
def ratio_pow(I, m, a, dt):
    x = rat_arg(I, a[0]); e = a[1].v
    k = I.concretize(e, limit=2 * I.params.get('pow_bound', 8) + 2, what='Ratio::pow exponent')
    if abs(k) > I.params.get('pow_abs_bound', 400): raise PathEnd('bound', f'Ratio::pow exponent {k} beyond pow_abs_bound')
    if k == 0: return VRat(1)
    if is_c(x):
        if k < 0 and x == 0: raise PathEnd('panic', 'Ratio::pow: zero to a negative power (division by zero)')
        return VRat(Fraction(x) ** k)
    if k < 0:
        if I.branch(req(x, 0)): raise PathEnd('panic', 'Ratio::pow: zero to a negative power (division by zero)')
        return VRat(1 / z3.Product([rz(x)] * (-k)))
    return VRat(z3.Product([rz(x)] * k))
@model(r'^' + RATIO_T + r'::recip$')
def ratio_recip(I, m, a, dt):
    x = rat_arg(I, a[0])
    if I.branch(req(x, 0)): raise PathEnd('panic', 'Ratio::recip of zero')
    return VRat(rdiv(1, x))
@model(r'^' + RATIO_T + r'::(trunc|round|floor|ceil|fract)$')
def ratio_round(I, m, a, dt):
    x = rat_arg(I, a[0]); op = m.group(1)
    k, f = int_frac(I, x)
    if is_c(x):
        if op == 'floor': r = k
        elif op == 'ceil': r = k if f == 0 else k + 1
        elif op == 'trunc': r = k if (x >= 0 or f == 0) else k + 1
        elif op == 'round': r = (k if f < Fraction(1, 2) else k + 1) if x >= 0 else (k if f <= Fraction(1, 2) else k + 1)
        else: return VRat(Fraction(x) - (k if (x >= 0 or f == 0) else k + 1))
        return VRat(r)
    half = z3.RealVal('1/2')
    k = iz(k); fz = rz(f); xz = rz(x)
    if op == 'floor': r = k
    elif op == 'ceil': r = z3.If(fz == 0, k, k + 1)
    elif op == 'trunc': r = z3.If(z3.Or(xz >= 0, fz == 0), k, k + 1)
    elif op == 'round': r = z3.If(xz >= 0, z3.If(fz < half, k, k + 1), z3.If(fz <= half, k, k + 1))
    else: return VRat(xz - z3.ToReal(z3.If(z3.Or(xz >= 0, fz == 0), k, k + 1)))
    return VRat(z3.ToReal(r))
@model(r'^' + RATIO_T + r'::to_integer$')
def ratio_to_integer(I, m, a, dt):
    x = rat_arg(I, a[0]); k, f = int_frac(I, x)
    if is_c(x): return VBig(k if (x >= 0 or f == 0) else k + 1)
    return VBig(z3.If(z3.Or(rz(x) >= 0, rz(f) == 0), iz(k), iz(k) + 1))
@model(r'^' + RATIO_T + r'::is_integer$')
def ratio_is_integer(I, m, a, dt):
    v = deref(I, a[0])
    if v.nd and not is_conc(v.nd[1]): return VBool(v.nd[1] == 1)
    x = v.v
    k, f = int_frac(I, x)
    return VBool(req(f, 0))
@model(r'^' + RATIO_T + r'::(numer|denom)$')
def ratio_numer_denom(I, m, a, dt):
    v = deref(I, a[0])
    return VRef(Cell(VObj(m.group(1) + '_of', rat=v.v, nd=v.nd)), [])
@model(r'^<' + RATIO + r' as (?:num::|num_traits::)?(?:identities::)?(Zero|One)>::(is_zero|is_one|zero|one)$')
def ratio_zero_one(I, m, a, dt):
    k = m.group(2)
    if k == 'zero': return VRat(0)
    if k == 'one': return VRat(1)
    return VBool(req(rat_arg(I, a[0]), 0 if k == 'is_zero' else 1))
@model(r'^<' + RATIO + r' as (?:num::|num_traits::)?(?:sign::)?Signed>::(is_negative|is_positive|abs|signum)$')
def ratio_signed(I, m, a, dt):
    x = rat_arg(I, a[0]); k = m.group(1)
    if k == 'is_negative': return VBool(rlt(x, 0))
    if k == 'is_positive': return VBool(rlt(0, x))
    if k == 'abs': return VRat(abs(x) if is_c(x) else z3.If(rz(x) < 0, -rz(x), rz(x)))
    return VRat(((x > 0) - (x < 0)) if is_c(x) else z3.If(rz(x) > 0, z3.RealVal(1), z3.If(rz(x) < 0, z3.RealVal(-1), z3.RealVal(0))))
@model(r'^<' + RATIO + r' as (?:std::cmp::)?PartialEq>::(eq|ne)$')
def ratio_eq(I, m, a, dt):
    r = req(rat_arg(I, a[0]), rat_arg(I, a[1]))
    return VBool(r if m.group(1) == 'eq' else znot(r))
@model(r'^<' + RATIO + r' as (?:num::|num_traits::)?(?:cast::)?ToPrimitive>::to_(u8|u16|u32|u64|usize|i8|i16|i32|i64|isize|u128|i128)$')
def ratio_to_prim(I, m, a, dt):
    x = rat_arg(I, a[0]); ty = m.group(1); lo, hi = INT_RANGE[ty]
    k, f = int_frac(I, x)
    if is_c(x): t = k if (x >= 0 or f == 0) else k + 1
    else: t = z3.If(z3.Or(rz(x) >= 0, rz(f) == 0), iz(k), iz(k) + 1)
    if I.branch(zand(t >= lo, t <= hi)): return some(VInt(t if is_conc(t) else z3.simplify(t), ty))
    return none()
@model(r'^<' + RATIO + r' as (?:num::|num_traits::)?(?:cast::)?ToPrimitive>::to_(f32|f64)$')
def ratio_to_float(I, m, a, dt):
    return some(VFloat(('of_rat', rat_arg(I, a[0]))))
@model(r'^' + RATIO_T + r'::from_float::<f64>$')
def ratio_from_float(I, m, a, dt):
    # opaque: an arbitrary rational, or None (NaN / infinity)
    if I.branch(I.fresh_bool('float_is_finite')): return some(VRat(I.fresh_real('from_float')))
    return none()
@model(r'^(?:std::)?f64::<impl f64>::(sin|cos)$')
def f64_trig(I, m, a, dt): return VFloat((m.group(1), a[0]))
