"""core::fmt: a Formatter is a list of output pieces; write!/format_args! templates of this toolchain are decoded.

pieces:  ('ch', code point expr) | ('str', python str) | ('int', z3/py integer, type name)
The Arguments template byte-code of this nightly (printed in the MIR as a byte-string constant): a byte n < 0x80 starts a
literal run of n bytes, 0xC0 is the next argument with default formatting, 0x00 ends the template; anything else
(width / precision / {:?} options) is reported as unsupported, never guessed.
"""
import re, z3
from mirsym import *
from . import model, ITER_NEXT
from .core import some, none, ok, err, deref
from .strings import StrS, gs, sref

FMT = r"(?:std::fmt::|core::fmt::)?Formatter(?:::)?<'_>"
def new_formatter(): return VObj('fmt', out=[])
def getf(I, v):
    v = deref(I, v)
    if isinstance(v, VObj) and v.kind == 'fmt': return v
    raise Unsupported(f'not a formatter: {v!r}')
def okunit(): return ok(VUnit())

def emit_str(f, s):
    if isinstance(s, StrS):
        for c, w in s.chars[s.lo:s.hi]: f.out.append(('ch', c.v))
    else: f.out.append(('str', s))

@model(r"^<" + FMT + r" as (?:std::fmt::|core::fmt::)?Write>::write_char$|^" + FMT + r"::write_char$")
def fmt_write_char(I, m, a, dt): getf(I, a[0]).out.append(('ch', a[1].v)); return okunit()
@model(r"^<" + FMT + r" as (?:std::fmt::|core::fmt::)?Write>::write_str$|^" + FMT + r"::write_str$")
def fmt_write_str(I, m, a, dt): emit_str(getf(I, a[0]), gs(I, a[1])); return okunit()

@model(r"^(?:core::fmt::rt::|std::fmt::rt::)?Argument::<'_>::new_(display|debug)::<(.*)>$")
def arg_new(I, m, a, dt): return VObj('fmtarg', how=m.group(1), ty=m.group(2), ref=a[0])
@model(r"^(?:std::fmt::|core::fmt::)?Arguments::<'_>::from_str$")
def args_from_str(I, m, a, dt): return VObj('fmtargs', lit=gs(I, a[0]), tmpl=None, args=[])
@model(r"^(?:std::fmt::|core::fmt::)?Arguments::<'_>::new::<\d+, \d+>$")
def args_new(I, m, a, dt):
    t = deref(I, a[0]); args = deref(I, a[1])
    if not isinstance(t, VTuple): raise Unsupported('format template is not a byte string')
    bs = [x.v for x in t.items]
    return VObj('fmtargs', lit=None, tmpl=bs, args=list(args.items))

def display_value(I, f, ty, ref, fref):
    ty = ty.strip()
    v = deref(I, ref)
    while ty.startswith('&'): ty = ty[1:].strip(); v = deref(I, v)
    if ty in INT_RANGE and ty != 'char': f.out.append(('int', v.v, ty)); return
    if ty == 'char': f.out.append(('ch', v.v)); return
    if ty in ('str', 'std::string::String', 'String', 'Box<str>'): emit_str(f, gs(I, v)); return
    if re.match(r'^(?:num::|num_bigint::)?(?:bigint::)?BigInt$', ty):
        from .num import big_arg
        f.out.append(('int', big_arg(I, v), 'BigInt')); return
    r = I.call(f'<{ty} as std::fmt::Display>::fmt', [VRef(Cell(v), []) if not isinstance(ref, VRef) else ref, fref])
    if isinstance(r, VEnum) and r.variant == 'Err': raise PathEnd('fmt-error', ty)

@model(r"^" + FMT + r"::write_fmt$|^<" + FMT + r" as (?:std::fmt::|core::fmt::)?Write>::write_fmt$")
def fmt_write_fmt(I, m, a, dt):
    f = getf(I, a[0]); ar = a[1]
    if ar.lit is not None: emit_str(f, ar.lit); return okunit()
    bs = ar.tmpl; i = 0; k = 0
    while i < len(bs):
        b = bs[i]; i += 1
        if b == 0: break
        if b < 0x80:
            f.out.append(('str', bytes(bs[i:i + b]).decode('utf-8', 'replace'))); i += b
        elif b == 0xC0:
            g = ar.args[k]; k += 1
            if g.how != 'display': raise Unsupported('{:?} formatting')
            display_value(I, f, g.ty, g.ref, a[0])
        else: raise Unsupported(f'format template opcode {b:#x}')
    return okunit()

@model(r"^<(char|u8|u16|u32|u64|usize|i8|i16|i32|i64|isize|str|&str|(?:std::string::)?String|(?:num::|num_bigint::)?(?:bigint::)?BigInt) as (?:std::fmt::|core::fmt::)?Display>::fmt$")
def prim_display(I, m, a, dt):
    display_value(I, getf(I, a[1]), m.group(1), a[0], a[1]); return okunit()
@model(r"^<&(.*) as (?:std::fmt::|core::fmt::)?Display>::fmt$")
def ref_display(I, m, a, dt):
    display_value(I, getf(I, a[1]), '&' + m.group(1), a[0], a[1]); return okunit()

# ---- ToString of integers with symbolic value: a digit vector of forked length tied to the value by a linear constraint
def digits_of(I, x, what='integer', maxd=None):
    """x: non-negative Int expr -> list of digit Int exprs (most significant first)"""
    if is_conc(x): return [int(ch) for ch in str(x)]
    maxd = maxd or I.params.get('digits_bound', 24)
    for n in range(1, maxd + 1):
        lo = 0 if n == 1 else 10 ** (n - 1)
        if I.branch(z3.And(x >= lo, x < 10 ** n)):
            ds = [I.fresh_int('dg') for _ in range(n)]
            I.assume(z3.And([z3.And(d >= 0, d <= 9) for d in ds] + [x == z3.Sum([ds[i] * 10 ** (n - 1 - i) for i in range(n)])]))
            return ds
    raise PathEnd('bound', f'{what} has more than {maxd} digits')
@model(r"^<((?:num::|num_bigint::)?(?:bigint::)?BigInt|u8|u16|u32|u64|usize|i8|i16|i32|i64|isize) as (?:std::string::)?ToString>::to_string$")
def int_to_string(I, m, a, dt):
    from .num import big_arg
    x = big_arg(I, a[0])
    neg = False
    if not (m.group(1).startswith('u')):
        neg = I.branch(x < 0)
        if neg: x = -x
    ds = digits_of(I, x)
    chars = ([(VInt(45, 'char'), 1)] if neg else []) + [(VInt(d + 48 if is_conc(d) else d + 48, 'char'), 1) for d in ds]
    return StrS(chars)
