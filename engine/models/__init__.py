"""Library models = trusted base of mirsym.  Each model replaces one std / num / syntree / logos function."""
import re
M = []
ITER_NEXT = {}
def model(pat, last=False):
    def deco(fn):
        M.append((re.compile(pat), fn)); return fn
    return deco
def iter_kind(kind):
    def deco(fn):
        ITER_NEXT[kind] = fn; return fn
    return deco
def all_models():
    from . import core, num, strings, coll, fmt, tree, logosrt, env, serde   # noqa: F401  (registration by import)
    return M
