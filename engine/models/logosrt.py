"""logos 0.13 runtime (logos::Lexer and its LexerInternal methods).  Only the runtime is modelled: the generated DFA
(`lex`, every `gotoN` function and the `LUT` constants) is executed from /repo's MIR.

Lexer state = (source bytes, token_start, token_end, token).  The source is a StrS slice; a 1-byte char is one (possibly
symbolic) byte, multi-byte chars are concrete, so byte offsets are concrete on every path.
"""
import re, z3
from mirsym import *
from . import model, ITER_NEXT
from .core import some, none, ok, err, deref
from .strings import StrS, gs, sref

def src_bytes(s):
    """[(VInt u8, char index, offset within char)] of a StrS slice"""
    out = []
    for i in range(s.lo, s.hi):
        c, w = s.chars[i]
        if w == 1: out.append((VInt(c.v, 'u8'), i, 0))
        else:
            if not is_conc(c.v): raise Unsupported('symbolic multi-byte char under logos')
            for k, b in enumerate(chr(c.v).encode()): out.append((VInt(b, 'u8'), i, k))
    return out

def getlx(I, v):
    v = deref(I, v)
    if isinstance(v, VObj) and v.kind == 'logos': return v
    raise Unsupported(f'not a logos lexer: {v!r}')

@model(r"^<(\w+) as (?:logos::)?Logos<'.*>>::lexer$")
def logos_lexer(I, m, a, dt):
    s = gs(I, a[0])
    return VObj('logos', s=s, bytes=src_bytes(s), start=0, end=0, token=none(), ty=m.group(1))

def logos_next(I, lx):
    lx.start = lx.end
    I.call(f"<{lx.ty} as Logos<'s>>::lex", [VRef(Cell(lx), [])])
    t = lx.token; lx.token = none()
    lx.count = getattr(lx, 'count', 0) + 1
    if lx.count > I.params.get('logos_bound', 64): raise PathEnd('bound', 'more than logos_bound tokens from one logos lexer')
    return t
ITER_NEXT['logos'] = logos_next

LI = r"^<(?:logos::)?Lexer<'.*, (\w+)> as (?:logos::internal::)?LexerInternal<'.*>>::"
@model(LI + r'(read|read_at)::<(u8|&\[u8; (\d+)\])>$')
def logos_read(I, m, a, dt):
    lx = getlx(I, a[0])
    off = lx.end + (I.concretize(a[1].v, what='read_at offset') if m.group(2) == 'read_at' else 0)
    if m.group(3) == 'u8':
        if off < len(lx.bytes): return some(lx.bytes[off][0])
        return none()
    n = int(m.group(4))
    if off + n <= len(lx.bytes): return some(VRef(Cell(VTuple([b for b, _, _ in lx.bytes[off:off + n]])), []))
    return none()
@model(LI + r'bump_unchecked$')
def logos_bump(I, m, a, dt):
    lx = getlx(I, a[0]); n = I.concretize(a[1].v, what='bump size')
    if I.params.get('profile') != 'release' and lx.end + n > len(lx.bytes):
        raise PathEnd('panic', 'logos: Bumping out of bounds!')
    lx.end += n
    return VUnit()
@model(LI + r'set$')
def logos_set(I, m, a, dt):
    getlx(I, a[0]).token = some(a[1]); return VUnit()
@model(LI + r'end$')
def logos_end(I, m, a, dt):
    getlx(I, a[0]).token = none(); return VUnit()
@model(LI + r'trivia$')
def logos_trivia(I, m, a, dt):
    lx = getlx(I, a[0]); lx.start = lx.end; return VUnit()
@model(LI + r'error$')
def logos_error(I, m, a, dt):
    lx = getlx(I, a[0])
    # str::find_boundary: next index >= token_end that is a char boundary (or len)
    e = lx.end
    while e < len(lx.bytes) and lx.bytes[e][2] != 0: e += 1
    lx.end = min(e, len(lx.bytes)) if e <= len(lx.bytes) else len(lx.bytes)
    lx.token = some(err(VUnit()))
    return VUnit()

def slice_from(I, lx, lo, hi, what):
    def cidx(off):
        if off == len(lx.bytes): return lx.s.hi
        if off > len(lx.bytes): raise PathEnd('panic', f'logos {what}: offset {off} beyond the source')
        b, ci, k = lx.bytes[off]
        if k != 0: raise PathEnd('panic', f'logos {what}: offset {off} is not a char boundary (slice_unchecked)')
        return ci
    return StrS(lx.s.chars, cidx(lo), cidx(hi))
@model(r"^(?:logos::)?Lexer::<'.*, (\w+)>::remainder$")
def logos_remainder(I, m, a, dt):
    lx = getlx(I, a[0]); return sref(slice_from(I, lx, lx.end, len(lx.bytes), 'remainder'))
@model(r"^(?:logos::)?Lexer::<'.*, (\w+)>::slice$")
def logos_slice(I, m, a, dt):
    lx = getlx(I, a[0]); return sref(slice_from(I, lx, lx.start, lx.end, 'slice'))
@model(r"^(?:logos::)?Lexer::<'.*, (\w+)>::span$")
def logos_span(I, m, a, dt):
    lx = getlx(I, a[0]); return VStruct('Range', [VInt(lx.start, 'usize'), VInt(lx.end, 'usize')])
