"""serde data model as an environment: a Serializer that records the events it receives, a Deserializer / MapAccess that
hands out prepared values.  serde, serde_derive's *generated* code is executed from /repo's MIR (derive output is part
of the crate); only the format side (what serde_cbor / serde_json would be) and serde's impls for std / num types are
models:  Serialize for u32/i32/u64/Option/Vec/Box<str>/BTreeMap/Ratio<BigInt>  = one event each,
         Deserialize for the same types = "return the value the format delivers".
"""
import re, z3
from mirsym import *
from . import model, ITER_NEXT
from .core import some, none, ok, err, deref
from .strings import StrS, gs

def getser(I, v):
    v = deref(I, v)
    if isinstance(v, VObj) and v.kind in ('ser', 'ser_struct'): return v
    raise Unsupported(f'not a serializer: {v!r}')
def new_serializer(): return VObj('ser', events=[])

SER = r"<(\w+) as (?:[\w:]*::)?Serializer>"
@model(r'^' + SER + r'::serialize_struct$')
def ser_struct(I, m, a, dt):
    s = getser(I, a[0]); s.events.append(('struct', gs(I, a[1]).text(), I.concretize(a[2].v)))
    return ok(VObj('ser_struct', events=s.events))
@model(r'^<' + SER + r'::SerializeStruct as (?:[\w:]*::)?SerializeStruct>::serialize_field::<(.*)>$')
def ser_field(I, m, a, dt):
    s = getser(I, a[0]); s.events.append(('field', gs(I, a[1]).text()))
    r = I.call(f'<{m.group(2)} as Serialize>::serialize::<__S>', [a[2], VRef(Cell(VObj('ser', events=s.events)), [])])
    return ok(VUnit()) if not (isinstance(r, VEnum) and r.variant == 'Err') else r
@model(r'^<' + SER + r'::SerializeStruct as (?:[\w:]*::)?SerializeStruct>::end$')
def ser_struct_end(I, m, a, dt):
    getser(I, a[0]).events.append(('end',)); return ok(VUnit())
@model(r'^' + SER + r'::serialize_unit_variant$')
def ser_unit_variant(I, m, a, dt):
    getser(I, a[0]).events.append(('unit_variant', gs(I, a[1]).text(), I.concretize(a[2].v), gs(I, a[3]).text())); return ok(VUnit())
@model(r'^' + SER + r'::serialize_newtype_variant::<(.*)>$')
def ser_newtype_variant(I, m, a, dt):
    s = getser(I, a[0]); s.events.append(('newtype_variant', gs(I, a[1]).text(), I.concretize(a[2].v), gs(I, a[3]).text()))
    return I.call(f'<{m.group(2)} as Serialize>::serialize::<__S>', [a[4], a[0]])
@model(r'^' + SER + r'::serialize_(u8|u16|u32|u64|i8|i16|i32|i64|bool|str)$')
def ser_prim(I, m, a, dt):
    v = a[1]
    getser(I, a[0]).events.append((m.group(2), gs(I, v).text() if m.group(2) == 'str' else v.v)); return ok(VUnit())

@model(r"^<(.*) as (?:[\w:]*::)?Serialize>::serialize::<\w+>$")
def serialize_std(I, m, a, dt):
    ty = m.group(1).strip(); s = getser(I, a[1]); v = deref(I, a[0])
    from .coll import MapV
    if ty in INT_RANGE: s.events.append((ty, v.v)); return ok(VUnit())
    if ty == 'bool': s.events.append(('bool', v.v)); return ok(VUnit())
    if re.match(r'^(?:std::boxed::)?Box<str>$|^(?:std::string::)?String$|^str$|^&str$', ty): s.events.append(('str', gs(I, v))); return ok(VUnit())
    if re.match(r'^(?:num::rational::|num_rational::)?Ratio<.*BigInt>$', ty): s.events.append(('ratio', v.v)); return ok(VUnit())
    mm = re.match(r'^(?:std::collections::|alloc::collections::)?(?:btree_map::)?BTreeMap<(.*)>$', ty)
    if mm:
        import mirparse as mp_
        kty, vty = [x.strip() for x in mp_.split_top(mm.group(1))[:2]]
        s.events.append(('map', len(v.entries)))
        for e in v.entries:
            for t, x in ((kty, VRef(Cell(e[0]), [])), (vty, VRef(e[1], []))):
                r = I.call(f'<{t} as Serialize>::serialize::<__S>', [x, a[1]])
                if isinstance(r, VEnum) and r.variant == 'Err': return r
        s.events.append(('map_end',)); return ok(VUnit())
    mm = re.match(r'^(?:std::option::)?Option<(.*)>$', ty)
    if mm:
        if v.variant == 'None': s.events.append(('none',)); return ok(VUnit())
        s.events.append(('some',)); return I.call(f'<{mm.group(1)} as Serialize>::serialize::<__S>', [VRef(Cell(v.items[0]), []), a[1]])
    mm = re.match(r'^(?:std::vec::)?Vec<(.*)>$', ty)
    if mm:
        s.events.append(('seq', len(v.items)))
        for x in v.items: I.call(f'<{mm.group(1)} as Serialize>::serialize::<__S>', [VRef(Cell(x), []), a[1]])
        s.events.append(('seq_end',)); return ok(VUnit())
    raise Fallthrough()

# ---- deserialisation: the format delivers prepared values ----
def deser(value): return VObj('deser', value=value)
@model(r"^<(.*) as (?:[\w:]*::)?Deserialize<'_>>::deserialize::<\w+>$")
def deserialize_std(I, m, a, dt):
    d = deref(I, a[0])
    if not (isinstance(d, VObj) and d.kind == 'deser'): raise Fallthrough()
    ty = m.group(1).strip()
    if ty in INT_RANGE or ty == 'bool' or re.match(r'^(?:std::|alloc::|num::|num_rational::)?(?:collections::|btree_map::|option::|vec::|boxed::|string::|rational::)*(BTreeMap|Option|Vec|Box|String|Ratio)<', ty) or ty in ('String',):
        if isinstance(d.value, VObj) and d.value.kind == 'deser_error': return err(d.value)
        return ok(d.value)
    raise Fallthrough()
@model(r"^<(\w+) as (?:[\w:]*::)?MapAccess<'_>>::next_key::<(.*)>$")
def map_next_key(I, m, a, dt):
    ma = deref(I, a[0])
    if ma.pos >= len(ma.items): return ok(none())
    idx = ma.items[ma.pos][0]
    return ok(some(VEnum(m.group(2), f'__field{idx}', [])))
@model(r"^<(\w+) as (?:[\w:]*::)?MapAccess<'_>>::next_value::<(.*)>$")
def map_next_value(I, m, a, dt):
    ma = deref(I, a[0]); ty = m.group(2)
    if ma.pos >= len(ma.items): raise PathEnd('panic', 'next_value without a key')
    v = ma.items[ma.pos][1]; ma.pos += 1
    return I.call(f"<{ty} as Deserialize<'_>>::deserialize::<__D>", [VRef(Cell(deser(v)), []) if False else deser(v)])
@model(r"^<(\w+) as (?:[\w:]*::)?SeqAccess<'_>>::next_element::<(.*)>$")
def seq_next_element(I, m, a, dt):
    sa = deref(I, a[0])
    if sa.pos >= len(sa.items): return ok(none())
    v = sa.items[sa.pos][1]; sa.pos += 1
    r = I.call(f"<{m.group(2)} as Deserialize<'_>>::deserialize::<__D>", [deser(v)])
    return ok(some(r.items[0])) if r.variant == 'Ok' else r
@model(r"^<.* as (?:[\w:]*::)?(?:de::)?Error>::(custom|missing_field|duplicate_field|unknown_field|invalid_length|invalid_value|invalid_type|unknown_variant)(?:::<.*>)?$|^(?:[\w:]*::)?__private::de::missing_field::<.*>$")
def de_error(I, m, a, dt):
    kind = m.group(1) or 'missing_field'
    e = VObj('deser_error', what=kind)
    return err(e) if 'missing_field::<' in m.group(0) else e
@model(r'^(?:std::fmt::|alloc::fmt::)?format$')
def fmt_format(I, m, a, dt): return StrS.from_text('<formatted message>')
@model(r'^(?:std::hint::|core::hint::)?must_use::<.*>$')
def must_use(I, m, a, dt): return a[0]

# ---- enums: EnumAccess hands out the variant index the format read, VariantAccess its payload ----
@model(r"^<(\w+) as (?:[\w:]*::)?EnumAccess<'_>>::variant::<(.*)>$")
def enum_variant(I, m, a, dt):
    ea = deref(I, a[0])
    return ok(VTuple([VEnum(m.group(2), f'__field{ea.index}', []), VObj('variantaccess', payload=ea.payload)]))
@model(r"^<<(\w+) as (?:[\w:]*::)?EnumAccess<'_>>::Variant as (?:[\w:]*::)?VariantAccess<'_>>::unit_variant$")
def variant_unit(I, m, a, dt): return ok(VUnit())
@model(r"^<<(\w+) as (?:[\w:]*::)?EnumAccess<'_>>::Variant as (?:[\w:]*::)?VariantAccess<'_>>::newtype_variant::<(.*)>$")
def variant_newtype(I, m, a, dt):
    va = deref(I, a[0])
    return I.call(f"<{m.group(2)} as Deserialize<'_>>::deserialize::<__D>", [deser(va.payload)])
