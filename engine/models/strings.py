"""&str / String / Box<str> model: a slice (lo, hi) over a list of chars, each (codepoint VInt, utf-8 width) with a
*concrete* width, so byte offsets stay concrete on every path while code points may be symbolic."""
import re, z3
from mirsym import *
from . import model, ITER_NEXT
from .core import some, none, ok, err, deref

class StrS:
    def __init__(self, chars, lo=0, hi=None):
        self.chars = chars; self.lo = lo; self.hi = len(chars) if hi is None else hi
    @staticmethod
    def from_text(txt):
        return StrS([(VInt(ord(c), 'char'), len(c.encode('utf-8', 'surrogatepass'))) for c in txt])
    def blen(self): return sum(w for _, w in self.chars[self.lo:self.hi])
    def nchars(self): return self.hi - self.lo
    def byte_start(self):
        return sum(w for _, w in self.chars[:self.lo])
    def at_byte(self, b):
        """char index (into the full list) whose start is byte offset b within this slice, or None"""
        off = 0
        for i in range(self.lo, self.hi):
            if off == b: return i
            if off > b: return None
            off += self.chars[i][1]
        return self.hi if off == b else None
    def is_concrete(self): return all(is_conc(c.v) for c, _ in self.chars[self.lo:self.hi])
    def text(self): return ''.join(chr(c.v) for c, _ in self.chars[self.lo:self.hi])
    def cps(self): return [c for c, _ in self.chars[self.lo:self.hi]]
    def __repr__(self):
        return 'Str(' + ''.join(chr(c.v) if is_conc(c.v) else '?' for c, _ in self.chars[self.lo:self.hi]) + ')'

def gs(I, v):
    v = deref(I, v)
    if isinstance(v, StrS): return v
    if isinstance(v, VObj) and v.kind == 'string': return v.s
    raise Unsupported(f'str of {v!r}')

def sref(s): return VRef(Cell(s), [])

@model(r'^core::str::<impl str>::get::<(?:std::ops::)?RangeFrom<usize>>$')
def str_get_from(I, m, a, dt):
    s = gs(I, a[0]); start = I.concretize(a[1].items[0].v, what='str offset')
    i = s.at_byte(start)
    if i is None: return none()
    return some(sref(StrS(s.chars, i, s.hi)))
@model(r'^core::str::<impl str>::get::<(?:std::ops::)?Range<usize>>$')
def str_get_range(I, m, a, dt):
    s = gs(I, a[0]); lo = I.concretize(a[1].items[0].v); hi = I.concretize(a[1].items[1].v)
    i, j = s.at_byte(lo), s.at_byte(hi)
    if i is None or j is None or i > j: return none()
    return some(sref(StrS(s.chars, i, j)))
@model(r'^core::str::<impl str>::chars$')
def str_chars(I, m, a, dt):
    s = gs(I, a[0]); return VObj('chars', s=s, i=s.lo)
@model(r'^core::str::<impl str>::char_indices$')
def str_char_indices(I, m, a, dt):
    s = gs(I, a[0]); return VObj('char_indices', s=s, i=s.lo, off=0)
@model(r'^core::str::<impl str>::bytes$|^core::str::<impl str>::as_bytes$')
def str_bytes(I, m, a, dt):
    s = gs(I, a[0]); bs = []
    for c, w in s.chars[s.lo:s.hi]:
        if w == 1: bs.append(VInt(c.v, 'u8'))
        else:
            if not is_conc(c.v): raise Unsupported('bytes of symbolic multi-byte char')
            bs.extend(VInt(b, 'u8') for b in chr(c.v).encode())
    if m.group(0).endswith('as_bytes'): return VRef(Cell(VObj('slice', items=bs)), [])
    return VObj('bytes', bs=bs, pos=0)
@model(r'^core::str::<impl str>::(len|is_empty)$|^(?:std::string::|alloc::string::)?String::(len|is_empty)$')
def str_len(I, m, a, dt):
    s = gs(I, a[0])
    if (m.group(1) or m.group(2)) == 'len': return VInt(s.blen(), 'usize')
    return VBool(s.blen() == 0)
@model(r'^<str as (?:std::ops::)?Index<(?:std::ops::)?Range<usize>>>::index$|^core::str::traits::<impl (?:std::ops::)?Index<(?:std::ops::)?Range<usize>> for str>::index$')
def str_index(I, m, a, dt):
    s = gs(I, a[0]); lo = I.concretize(a[1].items[0].v, what='str index'); hi = I.concretize(a[1].items[1].v, what='str index')
    i, j = s.at_byte(lo), s.at_byte(hi)
    if i is None or j is None or i > j: raise PathEnd('panic', f'str index {lo}..{hi} not on a char boundary / out of range')
    return sref(StrS(s.chars, i, j))
@model(r'^<str as (?:std::ops::)?Index<(?:std::ops::)?RangeFrom<usize>>>::index$|^core::str::traits::<impl (?:std::ops::)?Index<(?:std::ops::)?RangeFrom<usize>> for str>::index$')
def str_index_from(I, m, a, dt):
    s = gs(I, a[0]); lo = I.concretize(a[1].items[0].v, what='str index')
    i = s.at_byte(lo)
    if i is None: raise PathEnd('panic', f'str index {lo}.. not on a char boundary / out of range')
    return sref(StrS(s.chars, i, s.hi))

def str_eq_cond(x, y):
    if x.nchars() != y.nchars():
        # different char counts can still mean different strings only; widths are concrete so equal strings have equal counts
        return False
    cs = []
    for k in range(x.nchars()):
        (cx, wx), (cy, wy) = x.chars[x.lo + k], y.chars[y.lo + k]
        if wx != wy: return False
        cs.append(cx.v == cy.v)
    return zand(*cs) if cs else True
@model(r'^<str as (?:std::cmp::)?PartialEq>::(eq|ne)$|^core::str::traits::<impl (?:std::cmp::)?PartialEq for str>::(eq|ne)$|^<&str as (?:std::cmp::)?PartialEq>::(eq|ne)$|^<(?:std::string::)?String as (?:std::cmp::)?PartialEq(?:<.*>)?>::(eq|ne)$|^<Box<str> as (?:std::cmp::)?PartialEq>::(eq|ne)$')
def str_eq(I, m, a, dt):
    r = str_eq_cond(gs(I, a[0]), gs(I, a[1]))
    op = [g for g in m.groups() if g][0]
    return VBool(r if op == 'eq' else znot(r))
@model(r'^core::str::<impl str>::parse::<(i32|u32|i64|u64|usize|u8)>$|^<(i32|u32|i64|u64|usize|u8) as (?:std::str::)?FromStr>::from_str$')
def str_parse_int(I, m, a, dt):
    s = gs(I, a[0]); ty = m.group(1) or m.group(2); lo, hi = INT_RANGE[ty]
    cps = s.cps()
    def bad(kind): return err(VStruct('ParseIntError', [VEnum('IntErrorKind', kind, [])]))
    if not cps: return bad('Empty')
    i = 0; neg = False
    c0 = cps[0].v
    if I.branch(c0 == ord('+')): i = 1
    elif lo < 0 and I.branch(c0 == ord('-')): i = 1; neg = True
    if i == 1 and len(cps) == 1: return bad('InvalidDigit')
    val = 0
    for c in cps[i:]:
        if not I.branch(zand(c.v >= 48, c.v <= 57)): return bad('InvalidDigit')
        val = val * 10 + (c.v - 48)
    if neg: val = -val
    if I.branch(zand(val >= lo, val <= hi)): return ok(VInt(val, ty))
    return bad('NegOverflow' if neg else 'PosOverflow')
@model(r'^core::str::<impl str>::parse::<(.*)>$')
def str_parse_generic(I, m, a, dt):
    return I.call(f'<{m.group(1)} as FromStr>::from_str', [a[0]])
@model(r'^(?:core::)?char::methods::<impl char>::len_utf8$')
def len_utf8(I, m, a, dt):
    c = a[0].v
    if I.branch(c < 0x80): return VInt(1, 'usize')
    if I.branch(c < 0x800): return VInt(2, 'usize')
    if I.branch(c < 0x10000): return VInt(3, 'usize')
    return VInt(4, 'usize')
WS = [0x20, 0x85, 0xA0, 0x1680, 0x2028, 0x2029, 0x202F, 0x205F, 0x3000]
def is_ws_cond(c):
    if is_conc(c): return c in WS or 9 <= c <= 13 or 0x2000 <= c <= 0x200A
    return z3.Or([c == w for w in WS] + [z3.And(c >= 9, c <= 13), z3.And(c >= 0x2000, c <= 0x200A)])
@model(r'^(?:core::)?char::methods::<impl char>::is_whitespace$')
def is_ws(I, m, a, dt): return VBool(is_ws_cond(a[0].v))
@model(r'^(?:core::)?char::methods::<impl char>::is_ascii_digit$')
def is_ascii_digit(I, m, a, dt):
    c = deref(I, a[0]).v; return VBool(zand(c >= 48, c <= 57))
@model(r'^(?:core::)?char::methods::<impl char>::is_(ascii_)?alphabetic$')
def is_alpha(I, m, a, dt):
    c = deref(I, a[0]).v
    if not m.group(1) and not is_conc(c): raise Unsupported('is_alphabetic on symbolic char')
    if is_conc(c): return VBool(chr(c).isalpha() if not m.group(1) else (65 <= c <= 90 or 97 <= c <= 122))
    return VBool(zor(zand(c >= 65, c <= 90), zand(c >= 97, c <= 122)))
@model(r'^<char as From<u8>>::from$')
def char_from_u8(I, m, a, dt): return VInt(a[0].v, 'char')

# ---- owned strings ----
@model(r'^<str as ToString>::to_string$|^<str as ToOwned>::to_owned$|^<(?:std::string::)?String as From<&str>>::from$|^<&str as Into<(?:std::string::)?String>>::into$|^<(?:std::string::)?String as Clone>::clone$|^<Box<str> as Clone>::clone$|^<&str as Into<Box<str>>>::into$|^<Box<str> as From<&str>>::from$|^<(?:std::string::)?String as Into<Box<str>>>::into$|^(?:std::string::)?String::into_boxed_str$|^<Box<str> as From<(?:std::string::)?String>>::from$')
def str_to_owned(I, m, a, dt):
    s = gs(I, a[0]); return StrS(list(s.chars[s.lo:s.hi]))
@model(r'^<(?:std::string::)?String as (?:std::ops::)?Deref>::deref$|^(?:std::string::)?String::as_str$|^<Box<str> as (?:std::ops::)?Deref>::deref$|^<(?:std::string::)?String as AsRef<str>>::as_ref$|^<Box<str> as AsRef<str>>::as_ref$|^<(?:std::borrow::)?Cow<\'_, str> as (?:std::ops::)?Deref>::deref$|^<(?:std::borrow::)?Cow<\'_, str> as AsRef<str>>::as_ref$')
def string_deref(I, m, a, dt):
    v = deref(I, a[0])
    if isinstance(v, VEnum): v = deref(I, v.items[0])   # Cow
    return sref(v if isinstance(v, StrS) else gs(I, v))
@model(r'^(?:std::string::)?String::new$')
def string_new(I, m, a, dt): return StrS([])
@model(r'^(?:std::string::)?String::push_str$')
def string_push_str(I, m, a, dt):
    s = gs(I, a[0]); t = gs(I, a[1])
    I.write_ref(a[0], StrS(s.chars[s.lo:s.hi] + t.chars[t.lo:t.hi])); return VUnit()
@model(r'^(?:std::string::)?String::push$')
def string_push(I, m, a, dt):
    s = gs(I, a[0]); c = a[1]
    w = 1 if (is_conc(c.v) and c.v < 128) else (len(chr(c.v).encode()) if is_conc(c.v) else None)
    if w is None: raise Unsupported('push of symbolic char')
    I.write_ref(a[0], StrS(s.chars[s.lo:s.hi] + [(c, w)])); return VUnit()

# ---- iterators ----
def chars_next(I, it):
    if it.i >= it.s.hi: return none()
    c = it.s.chars[it.i][0]; it.i += 1; return some(c)
ITER_NEXT['chars'] = chars_next
def char_indices_next(I, it):
    if it.i >= it.s.hi: return none()
    c, w = it.s.chars[it.i]; off = it.off; it.i += 1; it.off += w
    return some(VTuple([VInt(off, 'usize'), c]))
ITER_NEXT['char_indices'] = char_indices_next
def bytes_next(I, it):
    if it.pos < len(it.bs):
        b = it.bs[it.pos]; it.pos += 1; return some(b)
    return none()
ITER_NEXT['bytes'] = bytes_next
@model(r'^(?:std::str::|core::str::)?Chars::<\'_>::as_str$')
def chars_as_str(I, m, a, dt):
    it = deref(I, a[0]); return sref(StrS(it.s.chars, it.i, it.s.hi))

# ---- further str methods ----
@model(r'^core::str::<impl str>::(starts_with|ends_with|contains|strip_prefix|strip_suffix)::<(&str|char|&&str|&(?:std::string::)?String)>$')
def str_affix(I, m, a, dt):
    s = gs(I, a[0]); k = m.group(1)
    if m.group(2) == 'char': pat = [a[1]]
    else: pat = gs(I, a[1]).cps()
    n = len(pat); cps = s.cps()
    def match_at(i):
        if i < 0 or i + n > len(cps): return False
        return zand(*[cps[i + j].v == pat[j].v for j in range(n)])
    if k == 'starts_with': return VBool(match_at(0))
    if k == 'ends_with': return VBool(match_at(len(cps) - n))
    if k == 'contains': return VBool(zor(*[match_at(i) for i in range(len(cps) - n + 1)]) if n <= len(cps) else False)
    if k == 'strip_prefix':
        if I.branch(match_at(0)): return some(sref(StrS(s.chars, s.lo + n, s.hi)))
        return none()
    if I.branch(match_at(len(cps) - n)): return some(sref(StrS(s.chars, s.lo, s.hi - n)))
    return none()
@model(r'^core::str::<impl str>::(trim|trim_start|trim_end)$')
def str_trim(I, m, a, dt):
    s = gs(I, a[0]); lo, hi = s.lo, s.hi; k = m.group(1)
    if k in ('trim', 'trim_start'):
        while lo < hi and I.branch(is_ws_cond(s.chars[lo][0].v)): lo += 1
    if k in ('trim', 'trim_end'):
        while hi > lo and I.branch(is_ws_cond(s.chars[hi - 1][0].v)): hi -= 1
    return sref(StrS(s.chars, lo, hi))
@model(r'^core::str::<impl str>::is_char_boundary$')
def str_is_char_boundary(I, m, a, dt):
    s = gs(I, a[0]); i = I.concretize(a[1].v, what='byte index')
    return VBool(s.at_byte(i) is not None)
@model(r'^core::str::<impl str>::split_at$')
def str_split_at(I, m, a, dt):
    s = gs(I, a[0]); i = I.concretize(a[1].v, what='byte index'); j = s.at_byte(i)
    if j is None: raise PathEnd('panic', f'split_at({i}) not on a char boundary')
    return VTuple([sref(StrS(s.chars, s.lo, j)), sref(StrS(s.chars, j, s.hi))])
@model(r'^core::str::<impl str>::get::<(?:std::ops::)?RangeTo<usize>>$')
def str_get_to(I, m, a, dt):
    s = gs(I, a[0]); hi = I.concretize(a[1].items[0].v, what='str offset'); j = s.at_byte(hi)
    if j is None: return none()
    return some(sref(StrS(s.chars, s.lo, j)))
@model(r'^<str as (?:std::ops::)?Index<(?:std::ops::)?RangeTo<usize>>>::index$|^core::str::traits::<impl (?:std::ops::)?Index<(?:std::ops::)?RangeTo<usize>> for str>::index$')
def str_index_to(I, m, a, dt):
    s = gs(I, a[0]); hi = I.concretize(a[1].items[0].v, what='str index'); j = s.at_byte(hi)
    if j is None: raise PathEnd('panic', f'str index ..{hi} not on a char boundary / out of range')
    return sref(StrS(s.chars, s.lo, j))
@model(r'^(?:core::)?char::methods::<impl char>::(is_ascii_alphanumeric|is_alphanumeric|is_ascii_whitespace|is_ascii|is_numeric|is_ascii_punctuation|to_ascii_lowercase|to_ascii_uppercase|is_ascii_lowercase|is_ascii_uppercase|to_digit)$')
def char_more(I, m, a, dt):
    c = deref(I, a[0]).v; k = m.group(1)
    dig = zand(c >= 48, c <= 57); up = zand(c >= 65, c <= 90); lo = zand(c >= 97, c <= 122)
    if k == 'is_ascii_alphanumeric': return VBool(zor(dig, up, lo))
    if k == 'is_ascii_whitespace': return VBool(zor(c == 32, c == 9, c == 10, c == 12, c == 13))
    if k == 'is_ascii': return VBool(c < 128)
    if k == 'is_ascii_lowercase': return VBool(lo)
    if k == 'is_ascii_uppercase': return VBool(up)
    if k == 'is_ascii_punctuation': return VBool(zor(zand(c >= 33, c <= 47), zand(c >= 58, c <= 64), zand(c >= 91, c <= 96), zand(c >= 123, c <= 126)))
    if k == 'to_ascii_lowercase': return VInt(zite(up, c + 32, c), 'char')
    if k == 'to_ascii_uppercase': return VInt(zite(lo, c - 32, c), 'char')
    if k == 'to_digit':
        radix = I.concretize(a[1].v, what='radix')
        if radix != 10: raise Unsupported('to_digit radix != 10')
        if I.branch(dig): return some(VInt(c - 48, 'u32'))
        return none()
    if is_conc(c): return VBool(chr(c).isalnum() if k == 'is_alphanumeric' else chr(c).isnumeric())
    if I.branch(c < 128): return VBool(zor(dig, up, lo) if k == 'is_alphanumeric' else dig)
    raise Unsupported(k + ' on a symbolic non-ASCII char')

@model(r'^core::str::<impl str>::split_whitespace$')
def str_split_whitespace(I, m, a, dt):
    s = gs(I, a[0]); parts = []; i = s.lo
    while i < s.hi:
        while i < s.hi and I.branch(is_ws_cond(s.chars[i][0].v)): i += 1
        j = i
        while j < s.hi and not I.branch(is_ws_cond(s.chars[j][0].v)): j += 1
        if j > i: parts.append(sref(StrS(s.chars, i, j)))
        i = j
    return VObj('veciter', items=parts, pos=0, end=None)
@model(r'^(?:alloc::|std::|core::)?str::<impl str>::(to_lowercase|to_uppercase|to_ascii_lowercase|to_ascii_uppercase)$|^str::(to_lowercase|to_uppercase)$')
def str_case(I, m, a, dt):
    s = gs(I, a[0]); k = m.group(1) or m.group(2); out = []
    for c, w in s.chars[s.lo:s.hi]:
        v = c.v
        if is_conc(v):
            ch = chr(v); t = ch.lower() if 'lower' in k else ch.upper()
            if 'ascii' in k and v >= 128: t = ch
            if len(t) != 1: raise Unsupported('case mapping that changes the length')
            out.append((VInt(ord(t), 'char'), len(t.encode())))
        else:
            if w != 1: raise Unsupported('case mapping of a symbolic multi-byte char')
            up = zand(v >= 65, v <= 90); lo_ = zand(v >= 97, v <= 122)
            out.append((VInt(zite(up, v + 32, v) if 'lower' in k else zite(lo_, v - 32, v), 'char'), 1))
    return StrS(out)
@model(r'^<(?:std::string::)?String as FromIterator<(?:(?:std::string::)?String|&str|char)>>::from_iter::<.*>$')
def string_from_iter(I, m, a, dt):
    from .coll import into_iter_any, iter_next
    it = into_iter_any(I, a[0], m.group(0)); out = []
    for _ in range(4096):
        x = iter_next(I, it)
        if x.variant == 'None': return StrS(out)
        v = deref(I, x.items[0])
        if isinstance(v, VInt): out.append((v, 1 if (not is_conc(v.v) or v.v < 128) else len(chr(v.v).encode())))
        else:
            t = gs(I, v); out += t.chars[t.lo:t.hi]
    raise PathEnd('bound', 'String::from_iter')

@model(r'^core::str::<impl str>::(find|rfind)::<(char|&str)>$')
def str_find(I, m, a, dt):
    s = gs(I, a[0]); cps = s.cps()
    pat = [a[1]] if m.group(2) == 'char' else gs(I, a[1]).cps()
    n = len(pat)
    order = range(len(cps) - n + 1) if m.group(1) == 'find' else range(len(cps) - n, -1, -1)
    for i in order:
        if I.branch(zand(*[cps[i + j].v == pat[j].v for j in range(n)])):
            return some(VInt(sum(w for _, w in s.chars[s.lo:s.lo + i]), 'usize'))
    return none()
@model(r'^core::str::<impl str>::(split|split_once|rsplit_once)::<(char|&str)>$')
def str_split(I, m, a, dt):
    s = gs(I, a[0]); cps = s.cps()
    pat = [a[1]] if m.group(2) == 'char' else gs(I, a[1]).cps()
    n = len(pat); k = m.group(1)
    if n == 0: raise Unsupported('split on an empty pattern')
    hits = []; i = 0
    while i + n <= len(cps):
        if I.branch(zand(*[cps[i + j].v == pat[j].v for j in range(n)])): hits.append(i); i += n
        else: i += 1
    if k == 'split':
        parts = []; start = 0
        for h in hits: parts.append(sref(StrS(s.chars, s.lo + start, s.lo + h))); start = h + n
        parts.append(sref(StrS(s.chars, s.lo + start, s.hi)))
        return VObj('veciter', items=parts, pos=0, end=None)
    if not hits: return none()
    h = hits[0] if k == 'split_once' else hits[-1]
    return some(VTuple([sref(StrS(s.chars, s.lo, s.lo + h)), sref(StrS(s.chars, s.lo + h + n, s.hi))]))
@model(r'^core::str::<impl str>::(lines|char_indices|chars)$')
def str_iters(I, m, a, dt): raise Fallthrough()
