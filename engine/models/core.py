"""Option/Result/ControlFlow plumbing, integer helpers, mem::*, Default, Clone for plain data."""
import re, z3
from mirsym import *
from . import model, ITER_NEXT

def some(v): return VEnum('Option', 'Some', [v])
def none(): return VEnum('Option', 'None', [])
def ok(v): return VEnum('Result', 'Ok', [v])
def err(v): return VEnum('Result', 'Err', [v])
def deref(I, v):
    while True:
        if isinstance(v, VRef): v = I.read_ref(v)
        elif isinstance(v, VObj) and v.kind == 'box': v = v.cell.val
        else: return v

OPT = r'(?:std::option::|core::option::)?Option'
RES = r'(?:std::result::|core::result::)?Result'

# ---- Try / FromResidual ----
@model(r'^<' + RES + r'<.*> as (?:std::ops::)?Try>::branch$')
def try_branch_result(I, m, a, dt):
    r = a[0]
    if r.variant == 'Ok': return VEnum('ControlFlow', 'Continue', [r.items[0]])
    return VEnum('ControlFlow', 'Break', [VEnum('Result', 'Err', [r.items[0]])])
@model(r'^<' + OPT + r'<.*> as (?:std::ops::)?Try>::branch$')
def try_branch_option(I, m, a, dt):
    r = a[0]
    if r.variant == 'Some': return VEnum('ControlFlow', 'Continue', [r.items[0]])
    return VEnum('ControlFlow', 'Break', [VEnum('Option', 'None', [])])
@model(r'^<' + RES + r'<(.*)> as (?:std::ops::)?FromResidual<' + RES + r'<(.*)>>>::from_residual$')
def from_residual_result(I, m, a, dt):
    e = a[0].items[0]
    # From<E> for F conversions that the crate relies on
    dst = m.group(1); src = m.group(2)
    d_err = mp.split_top(dst)[-1].strip(); s_err = mp.split_top(src)[-1].strip()
    if d_err != s_err:
        if 'anyhow::Error' in d_err: e = VObj('anyhow', inner=e)
        elif d_err.endswith('fmt::Error') or d_err == 'std::fmt::Error': pass
        else:
            # a From impl of the crate (thiserror #[from], hand-written conversions)
            dseg = re.sub(r'<.*$', '', d_err).split('::')[-1]; sseg = re.sub(r'<.*$', '', s_err).split('::')[-1]
            hits = [b for k_, bl in I.bodies.items() if k_.endswith('::from') for b in bl
                    if b.kind == 'fn' and len(b.args) == 1 and (b.ret or '').strip().split('::')[-1] == dseg and re.sub(r'<.*$', '', b.args[0][1].strip()).split('::')[-1] == sseg]
            if len(hits) == 1: e = I.run_body(hits[0], [e])
            else:
                try: e = I.call(f'<{d_err} as From<{s_err}>>::from', [e])
                except Unsupported: raise Unsupported(f'from_residual {s_err} -> {d_err}')
    return VEnum('Result', 'Err', [e])
@model(r'^<' + OPT + r'<.*> as (?:std::ops::)?FromResidual<.*>>::from_residual$')
def from_residual_option(I, m, a, dt): return none()
@model(r'^<' + RES + r'<.*> as (?:std::ops::)?FromResidual<' + OPT + r'<.*>>>::from_residual$')
def from_residual_res_opt(I, m, a, dt): raise Unsupported('Result from Option residual')

# ---- Option combinators ----
@model(r'^' + OPT + r'::<.*>::ok_or::<.*>$')
def opt_ok_or(I, m, a, dt):
    return ok(a[0].items[0]) if a[0].variant == 'Some' else err(a[1])
@model(r'^' + OPT + r'::<.*>::ok_or_else::<.*>$')
def opt_ok_or_else(I, m, a, dt):
    return ok(a[0].items[0]) if a[0].variant == 'Some' else err(I.call(a[1], []))
@model(r'^' + OPT + r'::<.*>::and_then::<.*>$')
def opt_and_then(I, m, a, dt):
    if a[0].variant == 'None': return none()
    return I.call(a[1], [a[0].items[0]])
@model(r'^' + OPT + r'::<.*>::map::<.*>$')
def opt_map(I, m, a, dt):
    if a[0].variant == 'None': return none()
    return some(I.call(a[1], [a[0].items[0]]))
@model(r'^' + OPT + r'::<.*>::(is_some|is_none)$')
def opt_is(I, m, a, dt):
    v = deref(I, a[0]); return VBool((v.variant == 'Some') == (m.group(1) == 'is_some'))
@model(r'^' + OPT + r'::<.*>::take$')
def opt_take(I, m, a, dt):
    v = I.read_ref(a[0]); I.write_ref(a[0], none()); return v
@model(r'^' + OPT + r'::<&.*>::(copied|cloned)$')
def opt_copied(I, m, a, dt):
    if a[0].variant == 'None': return none()
    return some(I.copyval(I.read_ref(a[0].items[0])))
@model(r'^' + OPT + r'::<.*>::unwrap_or_default$')
def opt_unwrap_or_default(I, m, a, dt):
    if a[0].variant == 'Some': return a[0].items[0]
    t = m.group(0)
    if '<char>' in t: return VInt(0, 'char')
    if '<bool>' in t: return VBool(False)
    mm = re.search(r'Option::<(\w+)>', t)
    if mm and mm.group(1) in INT_RANGE: return VInt(0, mm.group(1))
    raise Unsupported('unwrap_or_default ' + t)
@model(r'^' + OPT + r'::<.*>::unwrap_or$')
def opt_unwrap_or(I, m, a, dt):
    return a[0].items[0] if a[0].variant == 'Some' else a[1]
@model(r'^' + OPT + r'::<.*>::(unwrap|expect)$')
def opt_unwrap(I, m, a, dt):
    if a[0].variant == 'Some': return a[0].items[0]
    raise PathEnd('panic', 'Option::unwrap on None')
@model(r'^' + OPT + r'::<.*>::as_deref$')
def opt_as_deref(I, m, a, dt):
    v = deref(I, a[0])
    if v.variant == 'None': return none()
    return some(VRef(Cell(v.items[0]), []))
@model(r'^' + OPT + r'::<.*>::(as_ref|as_mut)$')
def opt_as_ref(I, m, a, dt):
    v = deref(I, a[0])
    if v.variant == 'None': return none()
    r = a[0]
    return some(VRef(r.cell, r.path + [('field', 0)]))
@model(r'^' + OPT + r'::<.*>::transpose$')
def opt_transpose(I, m, a, dt):
    o = a[0]
    if o.variant == 'None': return ok(none())
    r = o.items[0]
    return ok(some(r.items[0])) if r.variant == 'Ok' else err(r.items[0])
@model(r'^' + RES + r'::<.*>::transpose$')
def res_transpose(I, m, a, dt):
    r = a[0]
    if r.variant == 'Err': return some(err(r.items[0]))
    o = r.items[0]
    return some(ok(o.items[0])) if o.variant == 'Some' else none()
@model(r'^' + RES + r'::<.*>::map_err::<.*>$')
def res_map_err(I, m, a, dt):
    if a[0].variant == 'Ok': return a[0]
    return err(I.call(a[1], [a[0].items[0]]))
@model(r'^' + RES + r'::<.*>::map::<.*>$')
def res_map(I, m, a, dt):
    if a[0].variant == 'Err': return a[0]
    return ok(I.call(a[1], [a[0].items[0]]))
@model(r'^' + RES + r'::<.*>::ok$')
def res_ok(I, m, a, dt):
    return some(a[0].items[0]) if a[0].variant == 'Ok' else none()
@model(r'^' + RES + r'::<.*>::(is_ok|is_err)$')
def res_is(I, m, a, dt):
    v = deref(I, a[0]); return VBool((v.variant == 'Ok') == (m.group(1) == 'is_ok'))
@model(r'^' + RES + r'::<.*>::(unwrap|expect)$')
def res_unwrap(I, m, a, dt):
    if a[0].variant == 'Ok': return a[0].items[0]
    raise PathEnd('panic', 'Result::unwrap on Err')

# ---- mem ----
@model(r'^(?:std|core)::mem::take::<(.*)>$')
def mem_take(I, m, a, dt):
    old = I.read_ref(a[0]); ty = m.group(1)
    if ty == 'bool': new = VBool(False)
    elif ty in INT_RANGE: new = VInt(0, ty)
    else: new = I.call(f'<{ty} as Default>::default', [])
    I.write_ref(a[0], new); return old
@model(r'^(?:std|core)::mem::replace::<.*>$')
def mem_replace(I, m, a, dt):
    old = I.read_ref(a[0]); I.write_ref(a[0], a[1]); return old
@model(r'^(?:std|core)::mem::swap::<.*>$')
def mem_swap(I, m, a, dt):
    x = I.read_ref(a[0]); y = I.read_ref(a[1]); I.write_ref(a[0], y); I.write_ref(a[1], x); return VUnit()
@model(r'^(?:std|core)::mem::(drop|forget)::<.*>$')
def mem_drop(I, m, a, dt): return VUnit()
@model(r'^<(bool|char|[iu]\d+|[iu]size) as Default>::default$')
def prim_default(I, m, a, dt):
    t = m.group(1)
    return VBool(False) if t == 'bool' else VInt(0, t)
@model(r'^<(?:std::marker::)?PhantomData<.*> as Default>::default$')
def phantom_default(I, m, a, dt): return VStruct('PhantomData', [])

# ---- integers ----
INTTY = r'([iu]\d+|[iu]size)'
@model(r'^core::num::<impl ' + INTTY + r'>::checked_(add|mul|sub)$')
def checked(I, m, a, dt):
    ty = m.group(1); x, y = a[0].v, a[1].v
    r = {'add': x + y, 'mul': x * y, 'sub': x - y}[m.group(2)]
    lo, hi = INT_RANGE[ty]
    inr = (lo <= r <= hi) if is_conc(r) else z3.And(r >= lo, r <= hi)
    if I.branch(inr): return some(VInt(r, ty))
    return none()
@model(r'^core::num::<impl ' + INTTY + r'>::wrapping_(add|mul|sub)$')
def wrapping(I, m, a, dt):
    ty = m.group(1); x, y = a[0].v, a[1].v
    r = {'add': x + y, 'mul': x * y, 'sub': x - y}[m.group(2)]
    return VInt(I.wrap(r, ty), ty)
@model(r'^core::num::<impl ' + INTTY + r'>::saturating_sub$')
def sat_sub(I, m, a, dt):
    ty = m.group(1); x, y = a[0].v, a[1].v
    lo, hi = INT_RANGE[ty]
    r = x - y
    if is_conc(r): return VInt(min(max(r, lo), hi), ty)
    return VInt(z3.If(r < lo, lo, z3.If(r > hi, hi, r)), ty)
@model(r'^core::num::<impl ' + INTTY + r'>::saturating_add$')
def sat_add(I, m, a, dt):
    ty = m.group(1); x, y = a[0].v, a[1].v
    lo, hi = INT_RANGE[ty]
    r = x + y
    if is_conc(r): return VInt(min(max(r, lo), hi), ty)
    return VInt(z3.If(r < lo, lo, z3.If(r > hi, hi, r)), ty)
@model(r'^core::num::<impl (i\d+|isize)>::abs$')
def iabs(I, m, a, dt):
    x = a[0].v; ty = m.group(1); lo, hi = INT_RANGE[ty]
    # debug builds panic on MIN.abs(); release wraps to MIN
    if is_conc(x):
        if x == lo:
            if I.params.get('profile') == 'release': return VInt(lo, ty)
            raise PathEnd('panic', 'attempt to negate with overflow (abs)')
        return VInt(abs(x), ty)
    if I.branch(x == lo):
        if I.params.get('profile') == 'release': return VInt(lo, ty)
        raise PathEnd('panic', 'attempt to negate with overflow (abs)')
    return VInt(z3.If(x < 0, -x, x), ty)
@model(r'^core::num::<impl (i\d+|isize)>::unsigned_abs$')
def uabs(I, m, a, dt):
    x = a[0].v; ty = 'u' + m.group(1)[1:]
    if is_conc(x): return VInt(abs(x), ty)
    return VInt(z3.If(x < 0, -x, x), ty)
@model(r'^core::num::<impl (i\d+|isize)>::signum$')
def isignum(I, m, a, dt):
    x = a[0].v; ty = m.group(1)
    if is_conc(x): return VInt((x > 0) - (x < 0), ty)
    return VInt(z3.If(x > 0, 1, z3.If(x < 0, -1, 0)), ty)
@model(r'^core::num::<impl (i\d+|isize)>::(is_negative|is_positive)$')
def iisneg(I, m, a, dt):
    x = a[0].v
    return VBool(x < 0 if m.group(2) == 'is_negative' else x > 0)
@model(r'^<' + INTTY + r' as (?:std::cmp::)?(?:Ord|PartialOrd)>::(cmp|partial_cmp)$|^<' + INTTY + r' as (?:std::cmp::)?PartialOrd<[^>]*>>::partial_cmp$')
def int_cmp(I, m, a, dt):
    x = deref(I, a[0]).v; y = deref(I, a[1]).v
    if is_conc(x) and is_conc(y):
        o = VEnum('Ordering', 'Less' if x < y else ('Equal' if x == y else 'Greater'), [])
    else:
        i = I.choose([x < y, x == y, True])
        o = VEnum('Ordering', ['Less', 'Equal', 'Greater'][i], [])
    return some(o) if 'partial_cmp' in m.group(0) else o
@model(r'^<(' + INTTY + r'|bool|char) as (?:std::cmp::)?PartialEq(?:<[^>]*>)?>::(eq|ne)$')
def int_eq(I, m, a, dt):
    x = deref(I, a[0]).v; y = deref(I, a[1]).v
    r = (x == y)
    return VBool(r if m.group(0).endswith('::eq') else znot(r))
@model(r'^<(' + INTTY + r'|bool|char) as (?:std::cmp::)?PartialOrd(?:<[^>]*>)?>::(lt|le|gt|ge)$')
def int_ord(I, m, a, dt):
    x = deref(I, a[0]).v; y = deref(I, a[1]).v
    op = m.group(0).split('::')[-1]
    return VBool({'lt': x < y, 'le': x <= y, 'gt': x > y, 'ge': x >= y}[op])
@model(r'^<&(' + INTTY + r'|bool|char) as (?:std::cmp::)?PartialEq(?:<[^>]*>)?>::(eq|ne)$')
def refint_eq(I, m, a, dt):
    x = deref(I, a[0]).v; y = deref(I, a[1]).v
    r = (x == y)
    return VBool(r if m.group(0).endswith('::eq') else znot(r))
@model(r'^<(?:std::cmp::)?Ordering as (?:std::cmp::)?PartialEq>::eq$')
def ordering_eq(I, m, a, dt):
    return VBool(deref(I, a[0]).variant == deref(I, a[1]).variant)
@model(r'^(?:std::cmp::|core::cmp::)?Ordering::(is_eq|is_ne|is_lt|is_gt|is_le|is_ge|reverse)$')
def ordering_is(I, m, a, dt):
    v = a[0].variant; k = m.group(1)
    if k == 'reverse': return VEnum('Ordering', {'Less': 'Greater', 'Greater': 'Less', 'Equal': 'Equal'}[v], [])
    return VBool({'is_eq': v == 'Equal', 'is_ne': v != 'Equal', 'is_lt': v == 'Less', 'is_gt': v == 'Greater', 'is_le': v != 'Greater', 'is_ge': v != 'Less'}[k])
@model(r'^<' + INTTY + r' as (?:std::ops::)?(Add|Sub|Mul)Assign(?:<[^>]*>)?>::\w+$')
def int_opassign(I, m, a, dt):
    x = I.read_ref(a[0]); y = deref(I, a[1])
    r = I.int_binop(m.group(2), x, y); I.write_ref(a[0], r); return VUnit()
@model(r'^<(bool|char|' + INTTY + r') as Clone>::clone$')
def prim_clone(I, m, a, dt): return deref(I, a[0])
@model(r'^<' + INTTY + r' as From<' + INTTY + r'>>::from$|^<' + INTTY + r' as Into<' + INTTY + r'>>::into$')
def int_from(I, m, a, dt):
    g = [x for x in m.groups() if x]
    dst = g[0] if 'From' in m.group(0) else g[1]
    return VInt(a[0].v, dst)
@model(r'^<' + INTTY + r' as TryFrom<' + INTTY + r'>>::try_from$|^<' + INTTY + r' as TryInto<' + INTTY + r'>>::try_into$')
def int_try_from(I, m, a, dt):
    g = [x for x in m.groups() if x]
    dst = g[0] if 'TryFrom' in m.group(0) else g[1]
    lo, hi = INT_RANGE[dst]; x = a[0].v
    if I.branch(zand(x >= lo, x <= hi)): return ok(VInt(x, dst))
    return err(VStruct('TryFromIntError', []))
@model(r'^(?:std|core)::cmp::(min|max)::<' + INTTY + r'>$|^<' + INTTY + r' as Ord>::(min|max)$')
def int_minmax(I, m, a, dt):
    k = m.group(1) or m.group(4); x, y = a[0].v, a[1].v; ty = a[0].ty
    if is_conc(x) and is_conc(y): return VInt(min(x, y) if k == 'min' else max(x, y), ty)
    return VInt(z3.If(x <= y, x, y) if k == 'min' else z3.If(x >= y, x, y), ty)
@model(r'^<(?:std::ops::)?Range<' + INTTY + r'> as IntoIterator>::into_iter$')
def range_into_iter(I, m, a, dt):
    r = a[0]; return VObj('range', cur=r.items[0].v, end=r.items[1].v, ty=m.group(1))
@model(r'^<(?:std::ops::)?Range<' + INTTY + r'> as Iterator>::next$')
def range_next(I, m, a, dt):
    r = I.read_ref(a[0])
    if isinstance(r, VObj): return ITER_NEXT['range'](I, r)
    cur, end = r.items[0].v, r.items[1].v
    if I.branch(cur < end):
        r.items[0] = VInt(cur + 1, m.group(1)); return some(VInt(cur, m.group(1)))
    return none()
def range_next_obj(I, it):
    if I.branch(it.cur < it.end):
        v = it.cur; it.cur = it.cur + 1
        it.count = getattr(it, 'count', 0) + 1
        if it.count > I.params.get('range_bound', 64): raise PathEnd('bound', 'range loop beyond range_bound')
        return some(VInt(v, it.ty))
    return none()
ITER_NEXT['range'] = range_next_obj

# ---- misc ----
@model(r'^(?:std|core)::hint::(unreachable_unchecked|assert_unchecked).*$')
def hint(I, m, a, dt): return VUnit()
@model(r'^(?:std|core)::intrinsics::(cold_path|likely|unlikely|assume).*$')
def intrinsics_nop(I, m, a, dt): return a[0] if a and m.group(1) in ('likely', 'unlikely') else VUnit()
@model(r'^(?:(?:std|core)::panicking::)?(panic|panic_fmt|assert_failed|assert_failed_inner|panic_const::.*|unreachable_display|panic_display|panic_nounwind|panic_bounds_check)(?:::<.*>)?$|^(?:std::rt::|core::panicking::)?(begin_panic|panic_explicit).*$')
def panic_model(I, m, a, dt):
    raise PathEnd('panic', 'explicit panic / failed assertion')
@model(r'^(?:std|core)::(?:option|result)::(?:unwrap_failed|expect_failed).*$')
def unwrap_failed(I, m, a, dt): raise PathEnd('panic', 'unwrap failed')
@model(r'^<(.*) as Into<\1>>::into$|^<(.*) as From<\2>>::from$')
def identity_into(I, m, a, dt): return a[0]
@model(r'^<(.*) as (?:std::borrow::)?(?:Borrow|BorrowMut)<\1>>::borrow(?:_mut)?$|^<(.*) as AsRef<\2>>::as_ref$')
def identity_borrow(I, m, a, dt): return a[0]
@model(r'^<&(?:mut )?(.*) as (?:std::ops::)?Deref(?:Mut)?>::deref(?:_mut)?$')
def ref_deref(I, m, a, dt): return I.read_ref(a[0])
@model(r'^log::.*$|^(?:log::)?__private_api::.*$')
def log_nop(I, m, a, dt):
    if m.group(0).endswith('max_level'): return VInt(0, 'usize')
    return VUnit()

# ---- further integer methods (symbolic arguments are concretised by all-SAT forking where no closed form is used) ----
def _rng(ty): return INT_RANGE[ty]
def _fit(ty, r):
    lo, hi = _rng(ty); return lo <= r <= hi
@model(r'^core::num::<impl ' + INTTY + r'>::(pow|saturating_pow|checked_pow|wrapping_pow|overflowing_pow)$')
def int_pow(I, m, a, dt):
    ty = m.group(1); k = m.group(2); lo, hi = _rng(ty)
    e = I.concretize(a[1].v, limit=200, what='integer pow exponent')
    if e > 4096: raise PathEnd('bound', 'integer pow exponent > 4096')
    b = a[0].v
    if is_conc(b): r = b ** e
    else:
        if e > 16: b = I.concretize(b, what='integer pow base'); r = b ** e
        else: r = z3.Product([b] * e) if e else 1
    fits = _fit(ty, r) if is_conc(r) else None
    if fits is None:
        fits = I.branch(zand(r >= lo, r <= hi))
    if k == 'pow':
        if fits: return VInt(r, ty)
        if I.params.get('profile') == 'release': return VInt(I.wrap(r, ty), ty)
        raise PathEnd('panic', 'attempt to multiply with overflow (pow)')
    if k == 'saturating_pow':
        if fits: return VInt(r, ty)
        neg = (r < 0) if is_conc(r) else I.branch(r < 0)
        return VInt(lo if neg else hi, ty)
    if k == 'checked_pow': return some(VInt(r, ty)) if fits else none()
    if k == 'wrapping_pow': return VInt(r if fits else I.wrap(r, ty), ty)
    return VTuple([VInt(r if fits else I.wrap(r, ty), ty), VBool(not fits)])
@model(r'^core::num::<impl ' + INTTY + r'>::(saturating_mul|checked_div|checked_rem|checked_neg|wrapping_neg|checked_abs|wrapping_abs|saturating_abs|abs_diff|rem_euclid|div_euclid|overflowing_add|overflowing_sub|overflowing_mul|saturating_neg|wrapping_div|wrapping_rem)$')
def int_misc(I, m, a, dt):
    ty = m.group(1); k = m.group(2); lo, hi = _rng(ty)
    x = a[0].v; y = a[1].v if len(a) > 1 else None
    def sat(r):
        if is_conc(r): return min(max(r, lo), hi)
        return z3.If(r < lo, lo, z3.If(r > hi, hi, r))
    if k == 'saturating_mul': return VInt(sat(x * y), ty)
    if k in ('overflowing_add', 'overflowing_sub', 'overflowing_mul'):
        r = {'add': x + y, 'sub': x - y, 'mul': x * y}[k[12:]]
        ovf = (not _fit(ty, r)) if is_conc(r) else z3.Or(r < lo, r > hi)
        return VTuple([VInt(I.wrap(r, ty), ty), VBool(ovf)])
    if k in ('checked_neg', 'wrapping_neg', 'saturating_neg'):
        r = -x
        if k == 'wrapping_neg': return VInt(I.wrap(r, ty), ty)
        if k == 'saturating_neg': return VInt(sat(r), ty)
        if I.branch(zand(r >= lo, r <= hi)): return some(VInt(r, ty))
        return none()
    if k in ('checked_abs', 'wrapping_abs', 'saturating_abs'):
        r = abs(x) if is_conc(x) else z3.If(x < 0, -x, x)
        if k == 'wrapping_abs': return VInt(I.wrap(r, ty), ty)
        if k == 'saturating_abs': return VInt(sat(r), ty)
        if I.branch(zand(r >= lo, r <= hi)): return some(VInt(r, ty))
        return none()
    if k == 'abs_diff':
        uty = 'u' + ty[1:] if ty.startswith('i') else ty
        d = x - y
        return VInt(abs(d) if is_conc(d) else z3.If(d < 0, -d, d), uty)
    if k in ('checked_div', 'checked_rem', 'wrapping_div', 'wrapping_rem', 'rem_euclid', 'div_euclid'):
        if I.branch(y == 0):
            if k.startswith('checked'): return none()
            raise PathEnd('panic', 'division by zero')
        if k in ('rem_euclid', 'div_euclid'):
            if is_conc(x) and is_conc(y):
                r = x % abs(y); q = (x - r) // y
            else:
                ay = z3.If(y < 0, -y, y) if not is_conc(y) else abs(y)
                r = x % ay; q = (x - r) / y
            return VInt(r if k == 'rem_euclid' else q, ty)
        v = I.int_binop('Div' if k.endswith('div') else 'Rem', VInt(x, ty), VInt(y, ty))
        if k.startswith('checked'):
            if I.branch(zand(v.v >= lo, v.v <= hi)): return some(v)
            return none()
        return VInt(I.wrap(v.v, ty), ty)
    raise Unsupported('int method ' + k)
@model(r'^core::num::<impl ' + INTTY + r'>::(leading_zeros|trailing_zeros|count_ones|count_zeros|is_power_of_two|ilog10|ilog2|ilog|checked_ilog10|next_power_of_two|swap_bytes|to_be|to_le)$')
def int_bits(I, m, a, dt):
    ty = m.group(1); k = m.group(2)
    bits = {'8': 8, '16': 16, '32': 32, '64': 64, '128': 128, 'size': 64}[ty[1:]]
    x = I.concretize(a[0].v, limit=300, what=k + ' argument')
    ux = x % (1 << bits)
    if k == 'leading_zeros': return VInt(bits - ux.bit_length(), 'u32')
    if k == 'trailing_zeros': return VInt(bits if ux == 0 else (ux & -ux).bit_length() - 1, 'u32')
    if k == 'count_ones': return VInt(bin(ux).count('1'), 'u32')
    if k == 'count_zeros': return VInt(bits - bin(ux).count('1'), 'u32')
    if k == 'is_power_of_two': return VBool(ux != 0 and ux & (ux - 1) == 0)
    if k in ('ilog10', 'checked_ilog10'):
        if x <= 0:
            if k.startswith('checked'): return none()
            raise PathEnd('panic', 'ilog10 of non-positive')
        r = len(str(x)) - 1
        return some(VInt(r, 'u32')) if k.startswith('checked') else VInt(r, 'u32')
    if k == 'ilog2':
        if x <= 0: raise PathEnd('panic', 'ilog2 of non-positive')
        return VInt(x.bit_length() - 1, 'u32')
    if k == 'next_power_of_two': return VInt(1 if ux <= 1 else 1 << (ux - 1).bit_length(), ty)
    raise Unsupported('int bits ' + k)
@model(r'^<' + INTTY + r' as Ord>::clamp$|^core::num::<impl ' + INTTY + r'>::clamp$')
def int_clamp(I, m, a, dt):
    x, lo, hi = a[0].v, a[1].v, a[2].v; ty = a[0].ty
    if is_conc(x) and is_conc(lo) and is_conc(hi): return VInt(min(max(x, lo), hi), ty)
    return VInt(z3.If(x < lo, lo, z3.If(x > hi, hi, x)), ty)
@model(r'^<' + INTTY + r' as (?:std::ops::)?(Add|Sub|Mul|Div|Rem|Neg)(?:<[^>]*>)?>::(add|sub|mul|div|rem|neg)$')
def int_op_trait(I, m, a, dt):
    ty = m.group(1); op = m.group(3)
    x = deref(I, a[0])
    if op == 'neg':
        r = -x.v; lo, hi = _rng(ty)
        if I.params.get('profile') != 'release' and I.branch(znot(zand(r >= lo, r <= hi))): raise PathEnd('panic', 'attempt to negate with overflow')
        return VInt(I.wrap(r, ty), ty)
    y = deref(I, a[1])
    if op in ('add', 'sub', 'mul'):
        t = I.int_binop(op.capitalize() + 'WithOverflow', x, y)
        if I.params.get('profile') != 'release' and I.branch(t.items[1].v): raise PathEnd('panic', f'attempt to {op} with overflow')
        return VInt(I.wrap(t.items[0].v, ty), ty)
    if I.branch(y.v == 0): raise PathEnd('panic', 'division by zero')
    return I.int_binop(op.capitalize(), x, y)
@model(r'^<' + INTTY + r' as (?:num::|num_traits::)?(?:identities::)?(Zero|One)>::(is_zero|is_one|zero|one)$')
def int_zero_one(I, m, a, dt):
    ty = m.group(1); k = m.group(3)
    if k == 'zero': return VInt(0, ty)
    if k == 'one': return VInt(1, ty)
    return VBool(deref(I, a[0]).v == (0 if k == 'is_zero' else 1))

# ---- further Option / Result combinators (so that small refactorings of the crate stay executable) ----
def _eq_vals(I, x, y, ty=''):
    """structural equality of two values as a condition"""
    x = deref(I, x); y = deref(I, y)
    if isinstance(x, (VInt, VBool)) and isinstance(y, (VInt, VBool)): return x.v == y.v
    if isinstance(x, VEnum) and isinstance(y, VEnum):
        if x.variant != y.variant: return False
        return zand(*[_eq_vals(I, a, b) for a, b in zip(x.items, y.items)])
    if isinstance(x, (VTuple, VStruct)) and isinstance(y, (VTuple, VStruct)) and len(x.items) == len(y.items):
        return zand(*[_eq_vals(I, a, b) for a, b in zip(x.items, y.items)])
    if isinstance(x, VUnit) and isinstance(y, VUnit): return True
    from .strings import StrS, str_eq_cond
    if isinstance(x, StrS) and isinstance(y, StrS): return str_eq_cond(x, y)
    from mirsym import VRat, VBig
    if isinstance(x, (VRat, VBig)) and isinstance(y, (VRat, VBig)):
        from .num import req
        return req(x.v, y.v)
    raise Unsupported(f'equality of {x!r} and {y!r}')
@model(r'^<' + OPT + r'<(.*)> as (?:std::cmp::)?PartialEq>::(eq|ne)$|^<' + RES + r'<(.*)> as (?:std::cmp::)?PartialEq>::(eq|ne)$')
def opt_eq(I, m, a, dt):
    r = _eq_vals(I, a[0], a[1])
    op = m.group(2) or m.group(4)
    return VBool(r if op == 'eq' else znot(r))
@model(r'^<\((.*)\) as (?:std::cmp::)?PartialEq>::(eq|ne)$')
def tuple_eq(I, m, a, dt):
    r = _eq_vals(I, a[0], a[1]); return VBool(r if m.group(2) == 'eq' else znot(r))
@model(r'^' + OPT + r'::<.*>::(unwrap_or_else|map_or|map_or_else|filter|or|or_else|xor|and|zip|is_some_and|is_none_or|insert|replace|get_or_insert_with|get_or_insert|inspect|ok_or)(?:::<.*>)?$')
def opt_more(I, m, a, dt):
    k = m.group(1); o = a[0]
    if k in ('insert', 'replace', 'get_or_insert_with', 'get_or_insert'):
        cur = I.read_ref(o)
        if k == 'replace': I.write_ref(o, some(a[1])); return cur
        if k == 'insert' or cur.variant == 'None':
            v = a[1] if k != 'get_or_insert_with' else I.call(a[1], [])
            I.write_ref(o, some(v))
        return VRef(o.cell, o.path + [('field', 0)])
    isome = o.variant == 'Some'
    if k == 'unwrap_or_else': return o.items[0] if isome else I.call(a[1], [])
    if k == 'map_or': return I.call(a[2], [o.items[0]]) if isome else a[1]
    if k == 'map_or_else': return I.call(a[2], [o.items[0]]) if isome else I.call(a[1], [])
    if k == 'filter':
        if not isome: return o
        keep = I.call(a[1], [VRef(Cell(o.items[0]), [])])
        return o if I.branch(keep.v) else none()
    if k == 'or': return o if isome else a[1]
    if k == 'or_else': return o if isome else I.call(a[1], [])
    if k == 'and': return a[1] if isome else none()
    if k == 'xor':
        b = a[1]
        if isome != (b.variant == 'Some'): return o if isome else b
        return none()
    if k == 'zip': return some(VTuple([o.items[0], a[1].items[0]])) if isome and a[1].variant == 'Some' else none()
    if k == 'is_some_and': return VBool(I.call(a[1], [o.items[0]]).v) if isome else VBool(False)
    if k == 'is_none_or': return VBool(I.call(a[1], [o.items[0]]).v) if isome else VBool(True)
    if k == 'inspect':
        if isome: I.call(a[1], [VRef(Cell(o.items[0]), [])])
        return o
    if k == 'ok_or': return ok(o.items[0]) if isome else err(a[1])
    raise Unsupported('Option::' + k)
@model(r'^' + RES + r'::<.*>::(unwrap_or|unwrap_or_else|unwrap_or_default|and_then|or_else|err|map_or|map_or_else|is_ok_and|is_err_and|and|or|unwrap_err|expect_err|copied|cloned|as_ref|as_mut)(?:::<.*>)?$')
def res_more(I, m, a, dt):
    k = m.group(1); r = a[0]
    if k in ('as_ref', 'as_mut'):
        v = deref(I, r); return VEnum('Result', v.variant, [VRef(r.cell, r.path + [('field', 0)])])
    isok = r.variant == 'Ok'
    if k == 'unwrap_or': return r.items[0] if isok else a[1]
    if k == 'unwrap_or_else': return r.items[0] if isok else I.call(a[1], [r.items[0]])
    if k == 'unwrap_or_default':
        if isok: return r.items[0]
        mm = re.search(r'Result::<(\w+),', m.group(0))
        if mm and mm.group(1) in INT_RANGE: return VInt(0, mm.group(1))
        if mm and mm.group(1) == 'bool': return VBool(False)
        raise Unsupported('Result::unwrap_or_default')
    if k == 'and_then': return I.call(a[1], [r.items[0]]) if isok else r
    if k == 'or_else': return r if isok else I.call(a[1], [r.items[0]])
    if k == 'err': return none() if isok else some(r.items[0])
    if k == 'map_or': return I.call(a[2], [r.items[0]]) if isok else a[1]
    if k == 'map_or_else': return I.call(a[2], [r.items[0]]) if isok else I.call(a[1], [r.items[0]])
    if k == 'is_ok_and': return VBool(I.call(a[1], [r.items[0]]).v) if isok else VBool(False)
    if k == 'is_err_and': return VBool(False) if isok else VBool(I.call(a[1], [r.items[0]]).v)
    if k == 'and': return a[1] if isok else r
    if k == 'or': return r if isok else a[1]
    if k in ('unwrap_err', 'expect_err'):
        if isok: raise PathEnd('panic', 'unwrap_err on Ok')
        return r.items[0]
    if k in ('copied', 'cloned'): return ok(I.copyval(deref(I, r.items[0]))) if isok else r
    raise Unsupported('Result::' + k)
@model(r'^<' + OPT + r'<(.*)> as Clone>::clone$')
def opt_clone(I, m, a, dt):
    o = deref(I, a[0])
    if o.variant == 'None': return none()
    v = o.items[0]
    if isinstance(v, (VInt, VBool)): return some(v)
    return some(I.call(f'<{m.group(1)} as Clone>::clone', [VRef(Cell(v), [])]))
@model(r'^<' + OPT + r'<.*> as Default>::default$')
def opt_default(I, m, a, dt): return none()

# ---- vec![a, b, ..] lowering of this toolchain: Box<MaybeUninit<[T; N]>> written through a raw pointer, then into_vec ----
@model(r'^(?:std::boxed::|alloc::boxed::)?Box::<\[.*; \d+\]>::new_uninit$')
def box_new_uninit(I, m, a, dt):
    # MaybeUninit { uninit: (), value: ManuallyDrop { value: MaybeDangling(T) } }
    b = VObj('box', cell=Cell(VTuple([VUnit(), VStruct('ManuallyDrop', [VStruct('MaybeDangling', [UNINIT])])]))); b.fields = [b]; return b
@model(r'^(?:std::boxed::|alloc::boxed::)?box_assume_init_into_vec_unsafe::<.*>$')
def box_into_vec(I, m, a, dt):
    from .coll import vec
    return vec(list(a[0].cell.val.items[1].items[0].items[0].items))
