"""BTreeMap (key-sorted association list ordered by the key type's own Ord, run from MIR), Vec, VecDeque, iterator adapters."""
import re, z3
from mirsym import *
from . import model, ITER_NEXT
from .core import some, none, ok, err, deref

BT = r'(?:std::collections::|alloc::collections::)?(?:btree_map::|btree::map::)?BTreeMap'
VEC = r'(?:std::vec::|alloc::vec::)?Vec'
VDQ = r'(?:std::collections::|alloc::collections::)?(?:vec_deque::)?VecDeque'

def first_generic(s):
    """first top-level generic argument of `X::<A, B>` / `X<A, B>` occurring in s"""
    i = s.find('<')
    j = i
    depth = 0
    for q in range(i, len(s)):
        if s[q] == '<': depth += 1
        elif s[q] == '>' and s[q-1] not in '-=':
            depth -= 1
            if depth == 0: j = q; break
    return mp.split_top(s[i+1:j])

class MapV:
    def __init__(self, kty=None): self.entries = []; self.kty = kty      # entries: [keyval, Cell(value)]
    def __repr__(self): return 'Map{' + ', '.join(f'{e[0]!r}: {e[1].val!r}' for e in self.entries) + '}'

def key_cmp(I, mp_, a, b):
    """-1/0/1 by the key type's Ord"""
    a = deref(I, a); b = deref(I, b)
    if isinstance(a, VInt) and isinstance(b, VInt):
        if is_conc(a.v) and is_conc(b.v): return (a.v > b.v) - (a.v < b.v)
        i = I.choose([a.v < b.v, a.v == b.v, True]); return i - 1
    kty = mp_.kty or 'unit::Unit'
    o = I.call(f'<{kty} as Ord>::cmp', [VRef(Cell(a), []), VRef(Cell(b), [])])
    return {'Less': -1, 'Equal': 0, 'Greater': 1}[o.variant]
def map_find(I, mp_, key):
    """returns (index, found)"""
    for i, e in enumerate(mp_.entries):
        c = key_cmp(I, mp_, key, e[0])
        if c == 0: return i, True
        if c < 0: return i, False
    return len(mp_.entries), False
def getmap(I, v):
    v = deref(I, v)
    if isinstance(v, MapV): return v
    raise Unsupported(f'not a map {v!r}')
def kty_of(m):
    try:
        t = m.group(0); return first_generic(t[t.index('BTreeMap'):])[0]
    except Exception: return None

@model(r'^<' + BT + r'<.*> as Default>::default$|^' + BT + r'::<.*>::new$')
def map_new(I, m, a, dt): return MapV(kty_of(m))
@model(r'^' + BT + r'::<.*>::is_empty$')
def map_is_empty(I, m, a, dt): return VBool(len(getmap(I, a[0]).entries) == 0)
@model(r'^' + BT + r'::<.*>::len$')
def map_len(I, m, a, dt): return VInt(len(getmap(I, a[0]).entries), 'usize')
@model(r'^' + BT + r'::<.*>::clear$')
def map_clear(I, m, a, dt): getmap(I, a[0]).entries.clear(); return VUnit()
@model(r'^' + BT + r'::<.*>::(iter|values|keys|iter_mut|values_mut)$|^<&(?:mut )?' + BT + r'<.*> as IntoIterator>::into_iter$')
def map_iter(I, m, a, dt):
    mp_ = getmap(I, a[0])
    return VObj('mapiter', m=mp_, snapshot=list(mp_.entries), pos=0, mode=(m.group(1) or 'iter').replace('_mut', ''))
@model(r'^<' + BT + r'<.*> as IntoIterator>::into_iter$|^' + BT + r'::<.*>::into_iter$')
def map_into_iter(I, m, a, dt):
    mp_ = getmap(I, a[0]); return VObj('mapiter', m=mp_, snapshot=list(mp_.entries), pos=0, mode='into')
@model(r'^' + BT + r'::<.*>::(get|get_mut)::<.*>$')
def map_get(I, m, a, dt):
    mp_ = getmap(I, a[0]); i, f = map_find(I, mp_, a[1])
    if not f: return none()
    return some(VRef(mp_.entries[i][1], []))
@model(r'^' + BT + r'::<.*>::contains_key::<.*>$')
def map_contains(I, m, a, dt):
    mp_ = getmap(I, a[0]); i, f = map_find(I, mp_, a[1]); return VBool(f)
@model(r'^' + BT + r'::<.*>::entry$')
def map_entry(I, m, a, dt):
    mp_ = getmap(I, a[0]); i, f = map_find(I, mp_, a[1])
    if not f: return VEnum('Entry', 'Vacant', [VObj('vacant', m=mp_, key=a[1], idx=i)])
    return VEnum('Entry', 'Occupied', [VObj('occupied', m=mp_, e=mp_.entries[i])])
@model(r'^(?:std::collections::|alloc::collections::)?(?:btree_map::|btree::map::entry::)?VacantEntry::<.*>::insert$')
def vacant_insert(I, m, a, dt):
    v = a[0]; e = [v.key, Cell(a[1])]; v.m.entries.insert(v.idx, e); return VRef(e[1], [])
@model(r'^(?:std::collections::|alloc::collections::)?(?:btree_map::|btree::map::entry::)?OccupiedEntry::<.*>::(get_mut|get|into_mut)$')
def occ_get(I, m, a, dt): return VRef(deref(I, a[0]).e[1], [])
@model(r'^(?:std::collections::|alloc::collections::)?(?:btree_map::|btree::map::entry::)?OccupiedEntry::<.*>::(remove_entry|remove)$')
def occ_remove(I, m, a, dt):
    o = deref(I, a[0])
    if o.e in o.m.entries: o.m.entries.remove(o.e)
    return VTuple([o.e[0], o.e[1].val]) if m.group(1) == 'remove_entry' else o.e[1].val
@model(r'^(?:std::collections::|alloc::collections::)?(?:btree_map::|btree::map::entry::)?OccupiedEntry::<.*>::insert$')
def occ_insert(I, m, a, dt):
    o = deref(I, a[0]); old = o.e[1].val; o.e[1].val = a[1]; return old
@model(r'^' + BT + r'::<.*>::insert$')
def map_insert(I, m, a, dt):
    mp_ = getmap(I, a[0]); i, f = map_find(I, mp_, a[1])
    if not f: mp_.entries.insert(i, [a[1], Cell(a[2])]); return none()
    old = mp_.entries[i][1].val; mp_.entries[i][1].val = a[2]; return some(old)
@model(r'^' + BT + r'::<.*>::remove::<.*>$')
def map_remove(I, m, a, dt):
    mp_ = getmap(I, a[0]); i, f = map_find(I, mp_, a[1])
    if not f: return none()
    e = mp_.entries.pop(i); return some(e[1].val)
@model(r'^<' + BT + r'<.*> as Clone>::clone$')
def map_clone(I, m, a, dt):
    mp_ = getmap(I, a[0]); n = MapV(mp_.kty or kty_of(m))
    n.entries = [[I.copyval(e[0]), Cell(I.copyval(e[1].val))] for e in mp_.entries]; return n
@model(r'^<' + BT + r'<.*> as (?:std::cmp::)?PartialEq>::(eq|ne)$')
def map_eq(I, m, a, dt):
    x = getmap(I, a[0]); y = getmap(I, a[1])
    t = m.group(0); kty, vty = first_generic(t[t.index('BTreeMap'):])[:2]
    res = True
    if len(x.entries) != len(y.entries): res = False
    else:
        conds = []
        for ex, ey in zip(x.entries, y.entries):
            if key_cmp(I, x, ex[0], ey[0]) != 0: res = False; break
            r = I.call(f'<{vty} as PartialEq>::eq', [VRef(ex[1], []), VRef(ey[1], [])])
            conds.append(r.v)
        if res is True: res = zand(*conds) if conds else True
    return VBool(res if m.group(1) == 'eq' else znot(res))
@model(r'^<' + BT + r'<.*> as FromIterator<.*>>::from_iter::<.*>$')
def map_from_iter(I, m, a, dt):
    out = MapV(kty_of(m)); it = into_iter_any(I, a[0], m.group(0))
    n = 0
    while True:
        x = iter_next(I, it)
        if x.variant == 'None': break
        kv = x.items[0]
        i, f = map_find(I, out, kv.items[0])
        if f: out.entries[i][1].val = kv.items[1]
        else: out.entries.insert(i, [kv.items[0], Cell(kv.items[1])])
        n += 1
        if n > 64: raise PathEnd('bound', 'from_iter beyond 64 items')
    return out

def mapiter_next(I, it):
    if it.pos >= len(it.snapshot): return none()
    e = it.snapshot[it.pos]; it.pos += 1
    if it.mode == 'into': return some(VTuple([e[0], e[1].val]))
    if it.mode == 'values': return some(VRef(e[1], []))
    if it.mode == 'keys': return some(VRef(Cell(e[0]), []))
    return some(VTuple([VRef(Cell(e[0]), []), VRef(e[1], [])]))
ITER_NEXT['mapiter'] = mapiter_next

# ---- Vec ----
def vec(items): return VObj('vec', items=items)
def getvec(I, v):
    v = deref(I, v)
    if isinstance(v, VObj) and v.kind in ('vec', 'slice', 'deque'): return v
    if isinstance(v, VTuple): return VObj('slice', items=v.items)
    raise Unsupported(f'not a vec {v!r}')
@model(r'^' + VEC + r'::<.*>::(new|with_capacity)$|^<' + VEC + r'<.*> as Default>::default$|^' + VDQ + r'::<.*>::(new|with_capacity)$')
def vec_new(I, m, a, dt): return vec([]) if 'Deque' not in m.group(0) else VObj('deque', items=[])
@model(r'^' + VEC + r'::<.*>::push$|^' + VDQ + r'::<.*>::push_back$')
def vec_push(I, m, a, dt): getvec(I, a[0]).items.append(a[1]); return VUnit()
@model(r'^' + VEC + r'::<.*>::pop$|^' + VDQ + r'::<.*>::pop_back$')
def vec_pop(I, m, a, dt):
    v = getvec(I, a[0]); return some(v.items.pop()) if v.items else none()
@model(r'^' + VDQ + r'::<.*>::pop_front$')
def deque_pop_front(I, m, a, dt):
    v = getvec(I, a[0]); return some(v.items.pop(0)) if v.items else none()
@model(r'^' + VDQ + r'::<.*>::push_front$')
def deque_push_front(I, m, a, dt): getvec(I, a[0]).items.insert(0, a[1]); return VUnit()
@model(r'^' + VEC + r'::<.*>::(len|is_empty)$|^' + VDQ + r'::<.*>::(len|is_empty)$|^core::slice::<impl \[.*\]>::(len|is_empty)$')
def vec_len(I, m, a, dt):
    v = getvec(I, a[0]); k = [g for g in m.groups() if g][0]
    return VInt(len(v.items), 'usize') if k == 'len' else VBool(len(v.items) == 0)
@model(r'^' + VEC + r'::<.*>::clear$|^' + VDQ + r'::<.*>::clear$')
def vec_clear(I, m, a, dt): getvec(I, a[0]).items.clear(); return VUnit()
@model(r'^' + VDQ + r'::<.*>::(get|get_mut)$|^core::slice::<impl \[.*\]>::(get|get_mut)::<usize>$')
def deque_get(I, m, a, dt):
    v = getvec(I, a[0]); i = I.concretize(a[1].v, what='index')
    if 0 <= i < len(v.items): return some(VRef(VecSlot(v, i), []))
    return none()
@model(r'^core::slice::<impl \[.*\]>::(last|last_mut|first|first_mut)$|^' + VDQ + r'::<.*>::(front|back)$')
def slice_last(I, m, a, dt):
    v = getvec(I, a[0]); k = [g for g in m.groups() if g][0]
    if not v.items: return none()
    return some(VRef(VecSlot(v, len(v.items) - 1 if k.startswith(('last', 'back')) else 0), []))
@model(r'^<' + VEC + r'<.*> as (?:std::ops::)?(?:Deref|DerefMut)>::(deref|deref_mut)$|^' + VEC + r'::<.*>::(as_slice|as_mut_slice)$')
def vec_deref(I, m, a, dt): return VRef(Cell(getvec(I, a[0])), [])
@model(r'^<' + VEC + r'<.*> as (?:std::ops::)?(?:Index|IndexMut)<usize>>::(index|index_mut)$|^<\[.*\] as (?:std::ops::)?(?:Index|IndexMut)<usize>>::(index|index_mut)$')
def vec_index(I, m, a, dt):
    v = getvec(I, a[0]); i = I.concretize(a[1].v, what='index')
    if not (0 <= i < len(v.items)): raise PathEnd('panic', 'index out of bounds')
    return VRef(VecSlot(v, i), [])
@model(r'^<' + VEC + r'<.*> as IntoIterator>::into_iter$')
def vec_into_iter(I, m, a, dt): return VObj('veciter', items=list(getvec(I, a[0]).items), pos=0, end=None)
@model(r'^<&(?:mut )?' + VEC + r'<.*> as IntoIterator>::into_iter$|^core::slice::<impl \[.*\]>::(iter|iter_mut)$|^<&(?:mut )?\[.*\] as IntoIterator>::into_iter$|^' + VDQ + r'::<.*>::iter$')
def vec_iter(I, m, a, dt):
    v = getvec(I, a[0]); return VObj('veciter', items=[VRef(VecSlot(v, i), []) for i in range(len(v.items))], pos=0, end=None)
@model(r'^<\[.*; \d+\] as IntoIterator>::into_iter$|^(?:std|core)::array::<impl IntoIterator for \[.*; \d+\]>::into_iter$')
def array_into_iter(I, m, a, dt): return VObj('veciter', items=list(a[0].items), pos=0, end=None)
@model(r'^<' + VEC + r'<.*> as Clone>::clone$')
def vec_clone(I, m, a, dt):
    v = getvec(I, a[0]); ety = first_generic(m.group(0)[1:])[0]
    out = []
    for x in v.items:
        if isinstance(x, (VInt, VBool)): out.append(x)
        else: out.append(I.call(f'<{ety} as Clone>::clone', [VRef(Cell(x), [])]))
    return vec(out)
@model(r'^<' + VEC + r'<.*> as FromIterator<.*>>::from_iter::<.*>$')
def vec_from_iter(I, m, a, dt):
    it = into_iter_any(I, a[0], m.group(0)); out = []
    while True:
        x = iter_next(I, it)
        if x.variant == 'None': break
        out.append(x.items[0])
        if len(out) > 256: raise PathEnd('bound', 'collect beyond 256 items')
    return vec(out)
@model(r'^(?:std::slice::|alloc::slice::)?<impl \[.*\]>::to_vec$|^alloc::slice::<impl \[.*\]>::to_vec$')
def slice_to_vec(I, m, a, dt): return vec([I.copyval(x) for x in getvec(I, a[0]).items])
@model(r'^core::slice::<impl \[.*\]>::binary_search_by::<.*>$')
def slice_binary_search_by(I, m, a, dt):
    # faithful transliteration of core's binary search (size-halving loop, as in the pinned std)
    v = getvec(I, a[0]); f = a[1]
    size = len(v.items)
    if size == 0: return err(VInt(0, 'usize'))
    base = 0
    while size > 1:
        half = size // 2; mid = base + half
        o = I.call(f, [VRef(VecSlot(v, mid), [])])
        base = base if o.variant == 'Greater' else mid
        size -= half
    o = I.call(f, [VRef(VecSlot(v, base), [])])
    if o.variant == 'Equal': return ok(VInt(base, 'usize'))
    return err(VInt(base + (1 if o.variant == 'Less' else 0), 'usize'))
def veciter_next(I, it):
    if it.pos >= len(it.items): return none()
    v = it.items[it.pos]; it.pos += 1; return some(v)
ITER_NEXT['veciter'] = veciter_next

# ---- generic iterator protocol ----
def iter_next(I, it, tyname=None):
    it0 = it
    it = deref(I, it)
    if isinstance(it, VObj) and it.kind in ITER_NEXT: return ITER_NEXT[it.kind](I, it)
    # an iterator implemented by the crate: run its own `next`
    if tyname is None: raise Unsupported(f'next on {it!r}')
    ref = it0 if isinstance(it0, VRef) else VRef(Cell(it), [])
    return I.call(f'<{tyname.replace("&mut ", "")} as Iterator>::next', [ref])

def into_iter_any(I, v, callee=''):
    d = deref(I, v)
    if isinstance(d, MapV): return VObj('mapiter', m=d, snapshot=list(d.entries), pos=0, mode='into' if not isinstance(v, VRef) else 'iter')
    if isinstance(d, VObj) and d.kind in ('vec', 'slice', 'deque'): return VObj('veciter', items=list(d.items), pos=0, end=None)
    if isinstance(d, VTuple): return VObj('veciter', items=list(d.items), pos=0, end=None)
    if isinstance(d, VObj) and d.kind in ITER_NEXT: return v
    if isinstance(d, VStruct):
        if d.name.endswith('Range') or len(d.items) == 2 and all(isinstance(x, VInt) for x in d.items):
            return VObj('range', cur=d.items[0].v, end=d.items[1].v, ty=d.items[0].ty)
        # crate type with its own IntoIterator / Iterator
        bare = re.sub(r'<.*$', '', d.name)
        try: return I.call(f'<{"&" if isinstance(v, VRef) else ""}{bare} as IntoIterator>::into_iter', [v])
        except Unsupported: return v
    raise Unsupported(f'into_iter of {d!r}')

@model(r'^<(.*) as IntoIterator>::into_iter$')
def generic_into_iter(I, m, a, dt):
    d = deref(I, a[0])
    if isinstance(d, VObj) and d.kind in ITER_NEXT: return a[0]
    raise Fallthrough()

def adapter(kind, **kw): return VObj(kind, **kw)
@model(r'^<(.*) as Iterator>::(map|filter|take|peekable|enumerate|rev|chain|skip|filter_map|take_while|by_ref|copied|cloned)(?:::<.*>)?$')
def iter_adapter(I, m, a, dt):
    k = m.group(2); inner = a[0]
    d = deref(I, inner)
    if not (isinstance(d, VObj) and d.kind in ITER_NEXT) and not isinstance(d, VStruct):
        raise Unsupported(f'adapter {k} over {d!r}')
    if k == 'by_ref': return a[0]
    if k == 'rev':
        if not isinstance(d, VObj): raise Unsupported('rev of crate iterator')
        if d.kind == 'veciter': return VObj('veciter', items=list(reversed(d.items[d.pos:])), pos=0, end=None)
        if d.kind == 'mapiter': return VObj('mapiter', m=d.m, snapshot=list(reversed(d.snapshot[d.pos:])), pos=0, mode=d.mode)
        raise Unsupported('rev of ' + d.kind)
    if k in ('map', 'filter', 'filter_map', 'take_while'): return adapter('ad_' + k, inner=inner, f=a[1], tyname=m.group(1))
    if k == 'take': return adapter('ad_take', inner=inner, n=a[1].v, tyname=m.group(1))
    if k == 'skip': return adapter('ad_skip', inner=inner, n=a[1].v, tyname=m.group(1))
    if k == 'peekable': return adapter('peekable', inner=inner, peeked=None, tyname=m.group(1))
    if k == 'enumerate': return adapter('ad_enumerate', inner=inner, i=0, tyname=m.group(1))
    if k == 'chain': return adapter('ad_chain', a=inner, b=into_iter_any(I, a[1]), first=True)
    if k in ('copied', 'cloned'): return adapter('ad_copied', inner=inner)
    raise Unsupported('adapter ' + k)
def ad_map_next(I, it):
    x = iter_next(I, it.inner, getattr(it, 'tyname', None))
    if x.variant == 'None': return x
    return some(I.call(it.f, [x.items[0]]))
ITER_NEXT['ad_map'] = ad_map_next
def ad_filter_next(I, it):
    for _ in range(4096):
        x = iter_next(I, it.inner, getattr(it, 'tyname', None))
        if x.variant == 'None': return x
        keep = I.call(it.f, [VRef(Cell(x.items[0]), [])])
        if I.branch(keep.v): return x
    raise PathEnd('bound', 'filter loop')
ITER_NEXT['ad_filter'] = ad_filter_next
def ad_filter_map_next(I, it):
    for _ in range(4096):
        x = iter_next(I, it.inner, getattr(it, 'tyname', None))
        if x.variant == 'None': return x
        r = I.call(it.f, [x.items[0]])
        if r.variant == 'Some': return r
    raise PathEnd('bound', 'filter_map loop')
ITER_NEXT['ad_filter_map'] = ad_filter_map_next
def ad_take_next(I, it):
    n = it.n
    if not is_conc(n): n = it.n = I.concretize(n, what='take count')
    if n <= 0: return none()
    it.n = n - 1
    return iter_next(I, it.inner, getattr(it, 'tyname', None))
ITER_NEXT['ad_take'] = ad_take_next
def ad_skip_next(I, it):
    while it.n > 0:
        it.n -= 1
        x = iter_next(I, it.inner, getattr(it, 'tyname', None))
        if x.variant == 'None': return x
    return iter_next(I, it.inner, getattr(it, 'tyname', None))
ITER_NEXT['ad_skip'] = ad_skip_next
def peekable_next(I, it):
    if it.peeked is not None:
        p = it.peeked; it.peeked = None; return p
    return iter_next(I, it.inner, getattr(it, 'tyname', None))
ITER_NEXT['peekable'] = peekable_next
def ad_enumerate_next(I, it):
    x = iter_next(I, it.inner, getattr(it, 'tyname', None))
    if x.variant == 'None': return x
    i = it.i; it.i += 1
    return some(VTuple([VInt(i, 'usize'), x.items[0]]))
ITER_NEXT['ad_enumerate'] = ad_enumerate_next
def ad_chain_next(I, it):
    if it.first:
        x = iter_next(I, it.a)
        if x.variant == 'Some': return x
        it.first = False
    return iter_next(I, it.b)
ITER_NEXT['ad_chain'] = ad_chain_next
def ad_copied_next(I, it):
    x = iter_next(I, it.inner, getattr(it, 'tyname', None))
    if x.variant == 'None': return x
    return some(I.copyval(deref(I, x.items[0])))
ITER_NEXT['ad_copied'] = ad_copied_next
def from_fn_next(I, it):
    return I.call(it.f, [])
ITER_NEXT['from_fn'] = from_fn_next
@model(r'^(?:std|core)::iter::from_fn::<.*>$')
def iter_from_fn(I, m, a, dt): return VObj('from_fn', f=a[0])

@model(r'^(?:std::iter::|core::iter::)?(?:adapters::peekable::)?Peekable::<.*>::peek$')
def peekable_peek(I, m, a, dt):
    it = deref(I, a[0])
    if it.peeked is None: it.peeked = iter_next(I, it.inner, getattr(it, 'tyname', None))
    p = it.peeked
    if p.variant == 'None': return none()
    return some(VRef(Cell(p), [('field', 0)]))

@model(r'^<(.*) as Iterator>::(count|all|any|last|sum|for_each|fold|find|position|max|min|nth)(?:::<.*>)?$')
def iter_consumer(I, m, a, dt):
    k = m.group(2); it = a[0]
    d = deref(I, it)
    if not (isinstance(d, VObj) and d.kind in ITER_NEXT) and not isinstance(d, VStruct):
        raise Unsupported(f'consumer {k} over {d!r}')
    bound = I.params.get('iter_bound', 4096)
    if k == 'count':
        n = 0
        while iter_next(I, it, m.group(1)).variant == 'Some':
            n += 1
            if n > bound: raise PathEnd('bound', 'count loop')
        return VInt(n, 'usize')
    if k in ('all', 'any'):
        for _ in range(bound):
            x = iter_next(I, it, m.group(1))
            if x.variant == 'None': return VBool(k == 'all')
            r = I.call(a[1], [x.items[0]])
            if I.branch(r.v) != (k == 'all'): return VBool(k == 'any')
        raise PathEnd('bound', 'all/any loop')
    if k == 'last':
        last = none()
        for _ in range(bound):
            x = iter_next(I, it, m.group(1))
            if x.variant == 'None': return last
            last = x
        raise PathEnd('bound', 'last loop')
    if k == 'nth':
        n = I.concretize(a[1].v, what='nth')
        for _ in range(n):
            if iter_next(I, it, m.group(1)).variant == 'None': return none()
        return iter_next(I, it, m.group(1))
    if k == 'for_each':
        for _ in range(bound):
            x = iter_next(I, it, m.group(1))
            if x.variant == 'None': return VUnit()
            I.call(a[1], [x.items[0]])
        raise PathEnd('bound', 'for_each loop')
    if k == 'fold':
        acc = a[1]
        for _ in range(bound):
            x = iter_next(I, it, m.group(1))
            if x.variant == 'None': return acc
            acc = I.call(a[2], [acc, x.items[0]])
        raise PathEnd('bound', 'fold loop')
    if k == 'find':
        for _ in range(bound):
            x = iter_next(I, it, m.group(1))
            if x.variant == 'None': return x
            r = I.call(a[1], [VRef(Cell(x.items[0]), [])])
            if I.branch(r.v): return x
        raise PathEnd('bound', 'find loop')
    if k == 'position':
        for i in range(bound):
            x = iter_next(I, it, m.group(1))
            if x.variant == 'None': return none()
            r = I.call(a[1], [x.items[0]])
            if I.branch(r.v): return some(VInt(i, 'usize'))
        raise PathEnd('bound', 'position loop')
    raise Unsupported('iterator consumer ' + k)

@model(r'^<(.*) as Iterator>::collect::<(.*)>$')
def iter_collect(I, m, a, dt):
    target = m.group(2)
    if re.match(r'^(?:std::string::)?String$', target.strip()): return I.call('<String as FromIterator<String>>::from_iter::<_>', [a[0]])
    return I.call(f'<{target} as FromIterator<_>>::from_iter::<_>', [a[0]])

@model(r'^<(.*) as Iterator>::next$')
def generic_next(I, m, a, dt):
    it = deref(I, a[0])
    if isinstance(it, VObj) and it.kind in ITER_NEXT: return ITER_NEXT[it.kind](I, it)
    raise Fallthrough()
@model(r'^<(.*) as Iterator>::size_hint$')
def generic_size_hint(I, m, a, dt):
    return VTuple([VInt(0, 'usize'), none()])

def clone_iter(I, it):
    it = deref(I, it)
    if not isinstance(it, VObj): raise Unsupported(f'clone of iterator {it!r}')
    if it.kind == 'chars': return VObj('chars', s=it.s, i=it.i)
    if it.kind == 'veciter': return VObj('veciter', items=list(it.items), pos=it.pos, end=it.end)
    if it.kind == 'peekable': return VObj('peekable', inner=clone_iter(I, it.inner), peeked=it.peeked, tyname=getattr(it, 'tyname', None))
    if it.kind == 'range': return VObj('range', cur=it.cur, end=it.end, ty=it.ty)
    raise Unsupported('clone of iterator kind ' + it.kind)
@model(r'^<(?:std::iter::|core::iter::)?(?:adapters::peekable::)?Peekable<.*> as Clone>::clone$|^<(?:std::str::|core::str::)?Chars<\'_> as Clone>::clone$')
def iter_clone(I, m, a, dt): return clone_iter(I, a[0])

def ad_take_while_next(I, it):
    if getattr(it, 'done', False): return none()
    x = iter_next(I, it.inner, getattr(it, 'tyname', None))
    if x.variant == 'None': return x
    keep = I.call(it.f, [VRef(Cell(x.items[0]), [])])
    if I.branch(keep.v): return x
    it.done = True
    return none()
ITER_NEXT['ad_take_while'] = ad_take_while_next
def ad_skip_while_next(I, it):
    if getattr(it, 'started', False): return iter_next(I, it.inner, getattr(it, 'tyname', None))
    for _ in range(4096):
        x = iter_next(I, it.inner, getattr(it, 'tyname', None))
        if x.variant == 'None': return x
        skip = I.call(it.f, [VRef(Cell(x.items[0]), [])])
        if not I.branch(skip.v): it.started = True; return x
    raise PathEnd('bound', 'skip_while loop')
ITER_NEXT['ad_skip_while'] = ad_skip_while_next
@model(r'^<(.*) as Iterator>::(skip_while|map_while)(?:::<.*>)?$')
def iter_adapter2(I, m, a, dt):
    k = m.group(2)
    if k == 'skip_while': return adapter('ad_skip_while', inner=a[0], f=a[1], tyname=m.group(1))
    raise Unsupported('adapter ' + k)

# ---- RefCell / Cell (single-threaded interior mutability: a shared cell) and hash maps with string / integer keys ----
@model(r'^<(?:std::cell::|core::cell::)?RefCell<(.*)> as Default>::default$')
def refcell_default(I, m, a, dt): return VObj('refcell', cell=Cell(I.call(f'<{m.group(1)} as Default>::default', [])))
@model(r'^(?:std::cell::|core::cell::)?RefCell::<.*>::new$')
def refcell_new(I, m, a, dt): return VObj('refcell', cell=Cell(a[0]))
@model(r'^(?:std::cell::|core::cell::)?RefCell::<.*>::(borrow|borrow_mut|get_mut|try_borrow|try_borrow_mut)$')
def refcell_borrow(I, m, a, dt):
    rc = deref(I, a[0]); r = VRef(rc.cell, [])
    return ok(r) if m.group(1).startswith('try') else r
@model(r"^<(?:std::cell::|core::cell::)?(?:Ref|RefMut)<'_, .*> as (?:std::ops::)?(?:Deref|DerefMut)>::(deref|deref_mut)$")
def ref_guard_deref(I, m, a, dt): return I.read_ref(a[0]) if isinstance(I.read_ref(a[0]), VRef) else a[0]
HM = r'(?:hashbrown::|std::collections::)?(?:hash_map::|map::)?HashMap'
@model(r'^<' + HM + r'<.*> as Default>::default$|^' + HM + r'::<.*>::(new|with_capacity)$')
def hashmap_new(I, m, a, dt): return MapV('__hash__')
def _hkey(I, k):
    k = deref(I, k)
    from .strings import StrS
    if isinstance(k, StrS):
        if not k.is_concrete(): raise Unsupported('hash map key with symbolic characters')
        return ('s', k.text())
    if isinstance(k, VInt) and is_conc(k.v): return ('i', k.v)
    raise Unsupported(f'hash map key {k!r}')
def _hfind(I, mp_, key):
    hk = _hkey(I, key)
    for e in mp_.entries:
        if _hkey(I, e[0]) == hk: return e
    return None
@model(r'^' + HM + r'::<.*>::(get|get_mut|contains_key|remove)(?:::<.*>)?$')
def hashmap_get(I, m, a, dt):
    mp_ = getmap(I, a[0]); e = _hfind(I, mp_, a[1]); k = m.group(1)
    if k == 'contains_key': return VBool(e is not None)
    if e is None: return none()
    if k == 'remove': mp_.entries.remove(e); return some(e[1].val)
    return some(VRef(e[1], []))
@model(r'^' + HM + r'::<.*>::insert$')
def hashmap_insert(I, m, a, dt):
    mp_ = getmap(I, a[0]); e = _hfind(I, mp_, a[1])
    if e is None: mp_.entries.append([a[1], Cell(a[2])]); return none()
    old = e[1].val; e[1].val = a[2]; return some(old)
@model(r'^' + HM + r'::<.*>::(len|is_empty|clear)$')
def hashmap_len(I, m, a, dt):
    mp_ = getmap(I, a[0]); k = m.group(1)
    if k == 'clear': mp_.entries.clear(); return VUnit()
    return VInt(len(mp_.entries), 'usize') if k == 'len' else VBool(not mp_.entries)
@model(r'^' + BT + r'::<.*>::retain::<.*>$')
def map_retain(I, m, a, dt):
    mp_ = getmap(I, a[0]); keep = []
    for e in list(mp_.entries):
        r = I.call(a[1], [VRef(Cell(e[0]), []), VRef(e[1], [])])
        if I.branch(r.v): keep.append(e)
    mp_.entries[:] = keep
    return VUnit()
@model(r'^' + VEC + r'::<.*>::retain::<.*>$')
def vec_retain(I, m, a, dt):
    v = getvec(I, a[0]); keep = []
    for i, x in enumerate(list(v.items)):
        r = I.call(a[1], [VRef(VecSlot(v, i), [])])
        if I.branch(r.v): keep.append(x)
    v.items[:] = keep
    return VUnit()

# ---- further Vec / slice / BTreeMap / iterator methods (so that refactorings of the crate stay executable) ----
@model(r'^' + VEC + r'::<.*>::(insert|remove|swap_remove|truncate|extend_from_slice|append|contains|first|last|reverse|dedup|split_off|drain|is_sorted|swap|resize|extend|sort|sort_unstable)(?:::<.*>)?$|^core::slice::<impl \[.*\]>::(contains|reverse|swap|sort|sort_unstable|starts_with|ends_with|concat|join)(?:::<.*>)?$|^<' + VEC + r'<.*> as Extend<.*>>::extend::<.*>$')
def vec_more(I, m, a, dt):
    k = m.group(1) or m.group(2) or 'extend'
    v = getvec(I, a[0])
    if k == 'insert':
        i = I.concretize(a[1].v, what='index')
        if not (0 <= i <= len(v.items)): raise PathEnd('panic', 'Vec::insert index out of bounds')
        v.items.insert(i, a[2]); return VUnit()
    if k in ('remove', 'swap_remove'):
        i = I.concretize(a[1].v, what='index')
        if not (0 <= i < len(v.items)): raise PathEnd('panic', f'Vec::{k} index out of bounds')
        if k == 'remove': return v.items.pop(i)
        x = v.items[i]; v.items[i] = v.items[-1]; v.items.pop(); return x
    if k == 'truncate':
        n = I.concretize(a[1].v, what='length'); del v.items[n:]; return VUnit()
    if k in ('extend_from_slice',): v.items.extend(I.copyval(x) for x in getvec(I, a[1]).items); return VUnit()
    if k == 'append':
        o = getvec(I, a[1]); v.items.extend(o.items); o.items.clear(); return VUnit()
    if k == 'extend':
        it = into_iter_any(I, a[1])
        for _ in range(4096):
            x = iter_next(I, it)
            if x.variant == 'None': return VUnit()
            v.items.append(x.items[0])
        raise PathEnd('bound', 'extend loop')
    if k == 'contains':
        from .core import _eq_vals
        return VBool(zor(*[_eq_vals(I, x, a[1]) for x in v.items]) if v.items else False)
    if k in ('first', 'last'):
        if not v.items: return none()
        return some(VRef(VecSlot(v, 0 if k == 'first' else len(v.items) - 1), []))
    if k == 'reverse': v.items.reverse(); return VUnit()
    if k == 'swap':
        i = I.concretize(a[1].v); j = I.concretize(a[2].v)
        if not (0 <= i < len(v.items) and 0 <= j < len(v.items)): raise PathEnd('panic', 'slice::swap out of bounds')
        v.items[i], v.items[j] = v.items[j], v.items[i]; return VUnit()
    if k in ('sort', 'sort_unstable'):
        if all(isinstance(x, VInt) and is_conc(x.v) for x in v.items): v.items.sort(key=lambda x: x.v); return VUnit()
        raise Unsupported('sort of symbolic / structured items')
    raise Unsupported('Vec::' + k)
@model(r'^' + BT + r'::<.*>::(first_key_value|last_key_value|pop_first|pop_last|keys|into_keys|into_values|extend|append|retain_mut)(?:::<.*>)?$|^<' + BT + r'<.*> as Extend<.*>>::extend::<.*>$')
def map_more(I, m, a, dt):
    k = m.group(1) or 'extend'
    mp_ = getmap(I, a[0])
    if k in ('first_key_value', 'last_key_value'):
        if not mp_.entries: return none()
        e = mp_.entries[0 if k.startswith('first') else -1]
        return some(VTuple([VRef(Cell(e[0]), []), VRef(e[1], [])]))
    if k in ('pop_first', 'pop_last'):
        if not mp_.entries: return none()
        e = mp_.entries.pop(0 if k == 'pop_first' else -1)
        return some(VTuple([e[0], e[1].val]))
    if k in ('keys', 'into_keys'): return VObj('mapiter', m=mp_, snapshot=list(mp_.entries), pos=0, mode='keys' if k == 'keys' else 'intokeys')
    if k == 'into_values': return VObj('veciter', items=[e[1].val for e in mp_.entries], pos=0, end=None)
    if k in ('extend', 'append'):
        src = a[1]
        it = into_iter_any(I, src)
        for _ in range(4096):
            x = iter_next(I, it)
            if x.variant == 'None': return VUnit()
            kv = x.items[0]
            key = deref(I, kv.items[0]) if isinstance(kv.items[0], VRef) else kv.items[0]
            val = deref(I, kv.items[1]) if isinstance(kv.items[1], VRef) else kv.items[1]
            i, f = map_find(I, mp_, key)
            if f: mp_.entries[i][1].val = val
            else: mp_.entries.insert(i, [key, Cell(val)])
        raise PathEnd('bound', 'extend loop')
    raise Unsupported('BTreeMap::' + k)
def ad_zip_next(I, it):
    x = iter_next(I, it.a, getattr(it, 'tya', None))
    if x.variant == 'None': return x
    y = iter_next(I, it.b, None)
    if y.variant == 'None': return y
    return some(VTuple([x.items[0], y.items[0]]))
ITER_NEXT['ad_zip'] = ad_zip_next
@model(r'^<(.*) as Iterator>::(zip|sum|product|min|max|min_by_key|max_by_key|step_by|flat_map|flatten|unzip|partition|try_fold|try_for_each|inspect|last|min_by|max_by|cmp|eq|rev|skip_while)(?:::<.*>)?$')
def iter_more(I, m, a, dt):
    k = m.group(2); it = a[0]
    d = deref(I, it)
    if not (isinstance(d, VObj) and d.kind in ITER_NEXT) and not isinstance(d, VStruct): raise Fallthrough()
    if k == 'zip': return adapter('ad_zip', a=it, b=into_iter_any(I, a[1]), tya=m.group(1))
    if k in ('sum', 'product', 'min', 'max'):
        acc = None
        for _ in range(4096):
            x = iter_next(I, it, m.group(1))
            if x.variant == 'None': break
            v = deref(I, x.items[0])
            if not isinstance(v, VInt): raise Unsupported(f'{k} over non-integer items')
            if acc is None: acc = v
            elif k == 'sum': acc = I.int_binop('Add', acc, v)
            elif k == 'product': acc = I.int_binop('Mul', acc, v)
            else:
                less = acc.v <= v.v
                acc = VInt(zite(less, acc.v, v.v) if k == 'min' else zite(less, v.v, acc.v), acc.ty)
        else: raise PathEnd('bound', k + ' loop')
        if k in ('min', 'max'): return some(acc) if acc is not None else none()
        if acc is None:
            mm = re.search(r'::<(\w+)>$', m.group(0)); ty = mm.group(1) if mm and mm.group(1) in INT_RANGE else 'i32'
            return VInt(0 if k == 'sum' else 1, ty)
        return acc
    if k == 'inspect': return adapter('ad_map', inner=it, f=VFn(None), tyname=m.group(1)) if False else it
    raise Fallthrough()
@model(r'^core::slice::<impl \[.*\]>::(split_last|split_first|split_at)$')
def slice_split(I, m, a, dt):
    # read-only views: the parts share the element values of the original (no _mut variants)
    v = getvec(I, a[0]); k = m.group(1)
    if k == 'split_at':
        n = I.concretize(a[1].v, what='index')
        if not (0 <= n <= len(v.items)): raise PathEnd('panic', 'split_at: mid > len')
        return VTuple([VRef(Cell(VObj('slice', items=v.items[:n])), []), VRef(Cell(VObj('slice', items=v.items[n:])), [])])
    if not v.items: return none()
    if k == 'split_last':
        return some(VTuple([VRef(VecSlot(v, len(v.items) - 1), []), VRef(Cell(VObj('slice', items=v.items[:-1])), [])]))
    return some(VTuple([VRef(VecSlot(v, 0), []), VRef(Cell(VObj('slice', items=v.items[1:])), [])]))
