"""syntree 0.14.5 model: Builder (open/close/token/checkpoint/close_at/build, shared-Rc checkpoints) transliterated from
builder.rs, and the read API (Tree, Node, Children, SkipTokens, Span).  Differentially tested against the real crate
(tools/fuzz_tree_model.py -> replay op `builder_ops`)."""
import re
from mirsym import *
from . import model, ITER_NEXT
from .core import some, none, ok, err, deref

U32_MAX = 2 ** 32 - 1

class Links:
    __slots__ = ('data', 'start', 'end', 'parent', 'prev', 'next', 'first', 'last')
    def __init__(self, data, start, end, parent, prev):
        self.data = data; self.start = start; self.end = end; self.parent = parent; self.prev = prev
        self.next = None; self.first = None; self.last = None

class TreeM:
    def __init__(self):
        self.tree = []; self.first = None; self.last = None; self.span_end = 0
    def get(self, i): return self.tree[i] if i is not None and 0 <= i < len(self.tree) else None

class SynErr(Exception):
    def __init__(self, kind): self.kind = kind

class BuilderM:
    def __init__(self):
        self.t = TreeM(); self.checkpoint_ = None; self.parent = None; self.sibling = None; self.cursor = 0
    def insert(self, data, start, end):
        new = len(self.t.tree)
        prev = self.sibling; self.sibling = None
        self.t.tree.append(Links(data, start, end, self.parent, prev))
        if self.parent is not None:
            node = self.t.get(self.parent)
            if node is not None:
                if node.first is None: node.first = new
                node.last = new
                node.end = end
        else:
            if self.t.first is None: self.t.first = new
            self.t.last = new
        p = self.t.get(prev)
        if p is not None: p.next = new
        return new
    def open(self, data):
        i = self.insert(data, self.cursor, self.cursor); self.parent = i; return i
    def close(self):
        head = self.parent; self.parent = None
        if head is None: raise SynErr('CloseError')
        self.sibling = head
        node = self.t.get(head)
        if node is None: raise SynErr('MissingNode')
        if node.parent is not None:
            par = self.t.get(node.parent)
            if par is None: raise SynErr('MissingNode')
            par.end = node.end
            self.parent = node.parent
    def token(self, value, length):
        start = self.cursor
        if length != 0:
            if self.cursor + length > U32_MAX: raise SynErr('Overflow')
            self.cursor += length
            self.t.span_end = self.cursor
        i = self.insert(value, start, self.cursor)
        self.sibling = i
        return i
    def checkpoint(self):
        node = len(self.t.tree)
        c = self.checkpoint_
        if c is not None and c[0] == node: return c
        c = [node, self.parent]
        self.checkpoint_ = c
        return c
    def close_at(self, c, data):
        i, parent = c
        if parent != self.parent: raise SynErr('CloseAtError')
        new_id = len(self.t.tree)
        links = self.t.get(i)
        if links is None:
            n = self.insert(data, self.cursor, self.cursor)
            if n != i: raise SynErr('MissingNode')
            self.sibling = n
            return n
        parent = links.parent; links.parent = new_id
        prev = links.prev; links.prev = None
        if links.next is not None:
            start = links.start
            nxt = links.next
            l = self.t.get(nxt)
            if l is None: raise SynErr('MissingNode')
            last = (nxt, l.end); l.parent = new_id
            while l.next is not None:
                nxt = l.next; l = self.t.get(nxt)
                if l is None: raise SynErr('MissingNode')
                last = (nxt, l.end); l.parent = new_id
            last_id, end = last
            span = (start, end)
        else:
            last_id = i; span = (links.start, links.end)
        p = self.t.get(parent)
        if p is not None:
            if p.first == i: p.first = new_id
            if p.last == i: p.last = new_id
        pv = self.t.get(prev)
        if pv is not None: pv.next = new_id
        if self.t.first == i: self.t.first = new_id
        n = Links(data, span[0], span[1], parent, prev)
        n.first = i; n.last = last_id
        self.t.tree.append(n)
        self.sibling = new_id
        c[0] = new_id; c[1] = parent
        return new_id
    def build(self):
        if self.parent is not None: raise SynErr('BuildError')
        return self.t

def serr(kind): return err(VObj('syntree_error', kind=kind))
def getb(I, v):
    v = deref(I, v)
    if isinstance(v, VObj) and v.kind == 'builder': return v.b
    raise Unsupported(f'not a syntree builder: {v!r}')

B = r'^(?:syntree::)?Builder::<.*>::'
@model(B + r'(new_with|new)$|^<(?:syntree::)?Builder<.*> as Default>::default$')
def b_new(I, m, a, dt): return VObj('builder', b=BuilderM())
@model(B + r'open$')
def b_open(I, m, a, dt):
    try: return ok(VInt(getb(I, a[0]).open(a[1]), 'u32'))
    except SynErr as e: return serr(e.kind)
@model(B + r'close$')
def b_close(I, m, a, dt):
    try: getb(I, a[0]).close(); return ok(VUnit())
    except SynErr as e: return serr(e.kind)
@model(B + r'token$')
def b_token(I, m, a, dt):
    n = I.concretize(a[2].v, what='token length')
    try: return ok(VInt(getb(I, a[0]).token(a[1], n), 'u32'))
    except SynErr as e: return serr(e.kind)
@model(B + r'token_empty$')
def b_token_empty(I, m, a, dt):
    try: return ok(VInt(getb(I, a[0]).token(a[1], 0), 'u32'))
    except SynErr as e: return serr(e.kind)
@model(B + r'checkpoint$')
def b_checkpoint(I, m, a, dt):
    return ok(VObj('checkpoint', c=getb(I, a[0]).checkpoint()))
@model(r'^<(?:syntree::)?Checkpoint<.*> as Clone>::clone$')
def cp_clone(I, m, a, dt):
    c = deref(I, a[0]); return VObj('checkpoint', c=c.c)       # Rc clone: shares the cell
@model(B + r'close_at$')
def b_close_at(I, m, a, dt):
    c = deref(I, a[1])
    try: return ok(VInt(getb(I, a[0]).close_at(c.c, a[2]), 'u32'))
    except SynErr as e: return serr(e.kind)
@model(B + r'build$')
def b_build(I, m, a, dt):
    try: return ok(VObj('tree', t=getb(I, a[0]).build()))
    except SynErr as e: return serr(e.kind)
@model(B + r'cursor$')
def b_cursor(I, m, a, dt): return VRef(Cell(VInt(getb(I, a[0]).cursor, 'u32')), [])

# ---- read API ----
def node(t, i): return VObj('node', t=t, id=i)
def gett(I, v):
    v = deref(I, v)
    if isinstance(v, VObj) and v.kind == 'tree': return v.t
    raise Unsupported(f'not a tree: {v!r}')
def getn(I, v):
    v = deref(I, v)
    if isinstance(v, VObj) and v.kind == 'node': return v
    raise Unsupported(f'not a node: {v!r}')
def children(t, first, last): return VObj('children', t=t, first=first, last=last)
def span_of(l): return VStruct('Span', [VInt(l.start, 'u32'), VInt(l.end, 'u32')])

T = r'^(?:syntree::)?Tree::<.*>::'
N = r'^(?:syntree::)?(?:node::)?Node::<.*>::'
C = r'^(?:syntree::)?(?:node::)?Children::<.*>::'
@model(T + r'children$')
def t_children(I, m, a, dt):
    t = gett(I, a[0]); return children(t, t.first, t.last)
@model(T + r'(first|last)$')
def t_first(I, m, a, dt):
    t = gett(I, a[0]); i = t.first if m.group(1) == 'first' else t.last
    return some(node(t, i)) if t.get(i) is not None else none()
@model(T + r'(is_empty|len|capacity)$')
def t_len(I, m, a, dt):
    t = gett(I, a[0])
    return VBool(len(t.tree) == 0) if m.group(1) == 'is_empty' else VInt(len(t.tree), 'usize')
@model(N + r'value$')
def n_value(I, m, a, dt):
    n = getn(I, a[0]); return VRef(Cell(n.t.tree[n.id].data), [])
@model(N + r'span$')
def n_span(I, m, a, dt):
    n = getn(I, a[0]); return VRef(Cell(span_of(n.t.tree[n.id])), [])
@model(N + r'range$')
def n_range(I, m, a, dt):
    n = getn(I, a[0]); l = n.t.tree[n.id]
    return VStruct('Range', [VInt(l.start, 'usize'), VInt(l.end, 'usize')])
@model(N + r'(has_children|is_empty)$')
def n_has_children(I, m, a, dt):
    n = getn(I, a[0]); h = n.t.tree[n.id].first is not None
    return VBool(h if m.group(1) == 'has_children' else not h)
@model(N + r'children$')
def n_children(I, m, a, dt):
    n = getn(I, a[0]); l = n.t.tree[n.id]; return children(n.t, l.first, l.last)
@model(N + r'(first|last|next|prev|parent)$')
def n_nav(I, m, a, dt):
    n = getn(I, a[0]); l = n.t.tree[n.id]; i = getattr(l, m.group(1))
    return some(node(n.t, i)) if n.t.get(i) is not None else none()
def children_next(I, it):
    first = it.first; it.first = None
    if first is None: return none()
    l = it.t.get(first)
    if l is None: return none()
    if it.last is None: return none()
    if first != it.last: it.first = l.next
    return some(node(it.t, first))
ITER_NEXT['children'] = children_next
def skiptokens_next(I, it):
    inner = deref(I, it.inner)
    while True:
        x = children_next(I, inner)
        if x.variant == 'None': return x
        n = x.items[0]
        if n.t.tree[n.id].first is not None: return x
ITER_NEXT['skiptokens'] = skiptokens_next
@model(C + r'skip_tokens$')
def c_skip_tokens(I, m, a, dt): return VObj('skiptokens', inner=a[0])
@model(C + r'next_node$')
def c_next_node(I, m, a, dt):
    it = deref(I, a[0])
    while True:
        x = children_next(I, it)
        if x.variant == 'None': return x
        n = x.items[0]
        if n.t.tree[n.id].first is not None: return x
@model(r'^<(?:syntree::)?(?:node::)?Children<.*> as Default>::default$')
def c_default(I, m, a, dt): return children(TreeM(), None, None)
@model(r'^<(?:syntree::)?(?:node::)?(?:Children|SkipTokens)<.*> as Clone>::clone$')
def c_clone(I, m, a, dt):
    it = deref(I, a[0])
    if it.kind == 'children': return children(it.t, it.first, it.last)
    inner = deref(I, it.inner); return VObj('skiptokens', inner=children(inner.t, inner.first, inner.last))
@model(r'^(?:syntree::)?Span::<.*>::new$')
def span_new(I, m, a, dt): return VStruct('Span', [a[0], a[1]])
@model(r'^(?:syntree::)?Span::<.*>::point$')
def span_point(I, m, a, dt): return VStruct('Span', [a[0], a[0]])
@model(r'^(?:syntree::)?Span::<.*>::range$')
def span_range(I, m, a, dt):
    s = deref(I, a[0]); return VStruct('Range', [VInt(s.items[0].v, 'usize'), VInt(s.items[1].v, 'usize')])
@model(r'^(?:syntree::)?Span::<.*>::(len|is_empty)$')
def span_len(I, m, a, dt):
    s = deref(I, a[0]); d = s.items[1].v - s.items[0].v
    return VInt(d, 'usize') if m.group(1) == 'len' else VBool(d == 0)
@model(r'^<(?:syntree::)?Span<.*> as (?:Clone|Copy)>::clone$')
def span_clone(I, m, a, dt): return I.copyval(deref(I, a[0]))

def dump_tree(t):
    """[(depth, kind, start, end)] in document order (for comparisons with the real crate)"""
    out = []
    def walk(i, depth):
        while i is not None:
            l = t.tree[i]
            out.append((depth, l.data.variant if hasattr(l.data, 'variant') else l.data, l.start, l.end, l.first is None and l.start != l.end))
            if l.first is not None: walk(l.first, depth + 1)
            i = l.next
    walk(t.first, 0)
    return out
