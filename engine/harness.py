"""Common runner: parallel path exploration, replay of solver models against the real build, known findings,
evidence files, exit codes.

exit 0  property held on everything explored (every obligation unsat, witnesses reached, nothing inconclusive)
exit 1  replay-confirmed violation that is not a listed known finding  (prints VIOLATION property=.. replay=..)
exit 2  inconclusive (unsupported construct, solver unknown, build failure, model mismatch)
"""
import os, sys, json, time, traceback, multiprocessing as mpc, random, subprocess, hashlib
ROOT = os.path.dirname(os.path.dirname(os.path.abspath(__file__)))
CACHE_DIR = os.environ.get('VERIF_CACHE') or os.path.join(ROOT, '.cache')
OUT_ROOT = os.environ['VERIF_CACHE'] if os.environ.get('VERIF_CACHE') and os.environ.get('VERIF_REPO') else ROOT   # development runs leave /verif/out and /verif/evidence alone
sys.path.insert(0, os.path.join(ROOT, 'engine'))
sys.path.insert(0, ROOT)
import z3
import mirfront, mirsym, models
from mirsym import Interp

NPROC = int(os.environ.get('VERIF_JOBS', '16'))
HARD_GRACE = 90

# ---------------------------------------------------------------- worker side
_W = {}
def interp_for(profile, params=None):
    """one Interp per (profile) per process"""
    key = profile
    I = _W.get(key)
    if I is None:
        if profile == 'dev+bin':
            # the binary's MIR (main and the option struct) on top of the library's
            b1, a1 = mirfront.load('dev'); b2, a2 = mirfront.load('bin')
            bodies = dict(b1)
            for k, v in b2.items(): bodies[k] = bodies.get(k, []) + v
            allocs = dict(a1); allocs.update({('bin:' + k if k in a1 else k): v for k, v in a2.items()})
        else:
            bodies, allocs = mirfront.load(profile)
        p = {'profile': profile}
        I = Interp(bodies, allocs, models.all_models(), params=p, src_root=mirfront.REPO, expanded=mirfront.expanded())
        _W[key] = I
    if params: I.params.update(params)
    return I

class JobResult(dict):
    COUNTERS = ('paths', 'decisions', 'obligations', 'discharged', 'solver_s', 'queries', 'bound_hits', 'infeasible', 'steps', 'retried_unknown')
    def __init__(self):
        dict.__init__(self)
        for k in self.COUNTERS: self[k] = 0
        self['inconclusive'] = []      # strings
        self['candidates'] = []        # dicts {case, role, detail}
        self['samples'] = []
        self['witnesses'] = {}         # name -> count
        self['functions'] = set()
        self['outcomes'] = {}          # kind -> count
        self['left'] = []
    def merge(self, o):
        for k in self.COUNTERS: self[k] += o.get(k, 0)
        self['inconclusive'].extend(o['inconclusive']); del self['inconclusive'][200:]
        self['candidates'].extend(o['candidates'])
        if len(self['samples']) < 12: self['samples'].extend(o['samples'][:12 - len(self['samples'])])
        for k, v in o['witnesses'].items(): self['witnesses'][k] = self['witnesses'].get(k, 0) + v
        for k, v in o['outcomes'].items(): self['outcomes'][k] = self['outcomes'].get(k, 0) + v
        for k, v in (o.get('cvc5') or {}).items():
            self.setdefault('cvc5', {}); self['cvc5'][k] = self['cvc5'].get(k, 0) + v
        self['functions'] |= set(o['functions'])
    def witness(self, name, n=1): self['witnesses'][name] = self['witnesses'].get(name, 0) + n
    def outcome(self, k): self['outcomes'][k] = self['outcomes'].get(k, 0) + 1
    def obligation(self, I, negated, what, on_sat=None, timeout_note=''):
        """check PC /\\ negated; unsat = discharged.  returns 'unsat' | 'sat' | 'unknown'"""
        self['obligations'] += 1
        if mirsym.is_conc(negated):
            if not negated: self['discharged'] += 1; return 'unsat'
            r, m = I.model_for(None)
        else:
            r, m = I.model_for(negated)
        if r == z3.unknown and not mirsym.is_conc(negated):
            # one retry on a fresh solver with six times the time (a loaded machine turns honest queries into time-outs)
            try:
                t0 = time.time()
                s2 = z3.Solver(); s2.set('timeout', 6 * int(I.params.get('query_timeout_ms', 10000))); s2.set('random_seed', 7)
                s2.add(I.solver.assertions()); s2.add(negated)
                r = s2.check(); m = s2.model() if r == z3.sat else None
                I.tot['solver_s'] += time.time() - t0; self['retried_unknown'] = self.get('retried_unknown', 0) + 1
            except Exception: r = z3.unknown
        if r == z3.unsat:
            self['discharged'] += 1
            if not self.get('_cvc5_done') and not mirsym.is_conc(negated): self.cross_check(I, negated, what)
            return 'unsat'
        if r == z3.sat:
            if on_sat: on_sat(m)
            return 'sat'
        self['inconclusive'].append(f'solver unknown: {what} {timeout_note}')
        return 'unknown'

def _cvc5_cross_check(self, I, negated, what):
    """the first solver-discharged obligation of every job is re-decided by cvc5 on the SMT-LIB2 export of the same query:
    `sat` there is a disagreement (inconclusive run), unknown / time-out is only counted"""
    self['_cvc5_done'] = True
    if os.environ.get('VERIF_CVC5', '1') == '0': return
    try:
        s2 = z3.Solver(); s2.add(I.solver.assertions()); s2.add(negated)
        text = '(set-logic ALL)\n' + s2.to_smt2()
        r = subprocess.run(['cvc5', '--lang', 'smt2', '--tlimit=4000'], input=text.encode(), stdout=subprocess.PIPE, stderr=subprocess.PIPE, timeout=8)
        out = r.stdout.decode(errors='replace').strip().split('\n')[0] if r.stdout else ''
        if '(error' in r.stdout.decode(errors='replace') or '(error' in r.stderr.decode(errors='replace'): out = 'error'
    except Exception as e:
        out = 'timeout' if isinstance(e, subprocess.TimeoutExpired) else 'error'
    self['cvc5'] = self.get('cvc5', {}); self['cvc5'][out if out in ('unsat', 'sat', 'unknown', 'timeout', 'error') else 'unknown'] = self['cvc5'].get(out if out in ('unsat', 'sat', 'unknown', 'timeout', 'error') else 'unknown', 0) + 1
    if out == 'sat': self['inconclusive'].append(f'cvc5 disagrees with z3 (z3 unsat, cvc5 sat) on: {what}')
JobResult.cross_check = _cvc5_cross_check

_CHECK = None
def _worker_task(args):
    job, prefixes, budget, deadline = args
    res = JobResult()
    try:
        t0 = time.time()
        _CHECK.run_job(job, res, prefixes, budget, deadline)
    except Exception as e:
        res['inconclusive'].append('exception in job %r: %s' % (job.get('name', job), traceback.format_exc()[-1500:]))
    for k, I in _W.items():
        res['solver_s'] += I.tot['solver_s']; I.tot['solver_s'] = 0.0
        res['queries'] += I.tot['queries']; I.tot['queries'] = 0
        res['decisions'] += I.tot['decisions']; I.tot['decisions'] = 0
        res['steps'] += I.tot['steps']; I.tot['steps'] = 0
        res['functions'] |= I.functions_run
    res['functions'] = sorted(res['functions'])
    return job, dict(res)

def explore(I, res, entry, on_path, prefixes, budget, deadline=None):
    """run the path explorer from the given decision prefixes with a path budget; leftovers go to res['left']"""
    work = [list(p) for p in (prefixes or [[]])]
    n = 0
    while work:
        if n >= budget or (deadline and time.time() > deadline): break
        # breadth-first while the frontier is small (yields many similar-sized subtrees for other workers),
        # depth-first afterwards (bounded memory)
        prefix = work.pop(0) if len(work) < 48 else work.pop()
        I.reset(prefix)
        try:
            out = ('ok', entry(I))
        except mirsym.PathEnd as e:
            out = (e.kind, e.info)
        except mirsym.Infeasible:
            res['infeasible'] += 1
            work.extend(I.pending); continue
        except mirsym.Unsupported as e:
            out = ('unsupported', str(e))
        except z3.Z3Exception as e:
            out = ('unsupported', 'z3: ' + str(e))
        n += 1
        res['paths'] += 1
        I.tot['steps'] += I.steps
        res.outcome(out[0])
        if out[0] == 'unsupported':
            res['inconclusive'].append('unsupported: ' + str(out[1])[:300])
        elif out[0] == 'unknown':
            res['inconclusive'].append('solver unknown: ' + str(out[1])[:300])
        elif out[0] == 'bound':
            res['bound_hits'] += 1
        snap = (res['obligations'], res['discharged'], len(res['candidates']), len(res['samples']), dict(res['witnesses']))
        try:
            on_path(I, out, res)
        except mirsym.Infeasible:
            # an oracle-side fork (concretize / branch in on_path) ran out of values: this was not a path at all
            res['obligations'], res['discharged'] = snap[0], snap[1]
            del res['candidates'][snap[2]:]; del res['samples'][snap[3]:]; res['witnesses'] = snap[4]
            res['paths'] -= 1; res['outcomes'][out[0]] -= 1; res['infeasible'] += 1
        except mirsym.Unsupported as e:
            res['inconclusive'].append('unsupported (oracle): ' + str(e)[:300])
        except mirsym.PathEnd as e:
            res['inconclusive'].append(f'oracle path end {e.kind}: {str(e.info)[:200]}')
        # on_path may itself fork (oracle branches): those alternatives are queued too
        work.extend(I.pending)
    res['left'] = work

# ---------------------------------------------------------------- master side
class Report:
    def __init__(self, pid, tier, seed):
        self.pid = pid; self.tier = tier; self.seed = seed; self.t0 = time.time()
        self.total = JobResult(); self.jobs = 0
        self.bounds = {}; self.outside = []; self.assumptions = []; self.models_used = []
        self.required_witnesses = []
        self.validated = 0
        self.violations = []; self.known_hits = []; self.mismatches = []
        self.extra = {}

def run_parallel(check, jobs, budget_per_task, deadline, report):
    global _CHECK
    _CHECK = check
    # parse MIR before forking so that workers share it
    for prof in getattr(check, 'PROFILES', ['dev']):
        for p_ in prof.split('+'): mirfront.load(p_)
    total = report.total
    first_budget = getattr(check, 'FIRST_BUDGET', 12)
    queue = [(j, None, first_budget) for j in jobs]
    report.jobs = len(jobs)
    ctx = mpc.get_context('fork')
    with ctx.Pool(NPROC, maxtasksperchild=40) as pool:
        pending = []
        def submit():
            while queue and len(pending) < NPROC * 2:
                j, pref, bud = queue.pop(0)
                pending.append(pool.apply_async(_worker_task, ((j, pref, bud, deadline),)))
        submit()
        while pending:
            done = [p for p in pending if p.ready()]
            if not done:
                if deadline and time.time() > deadline + HARD_GRACE:
                    # a worker is stuck inside the solver (z3 does not always honour its timeout): give up on it
                    total['inconclusive'].append(f'hard deadline: {len(pending)} task(s) still running {HARD_GRACE}s after the time limit were abandoned')
                    pool.terminate(); break
                time.sleep(0.02); continue
            for p in done:
                pending.remove(p)
                job, r = p.get()
                total.merge(r)
                if os.environ.get('VERIF_DEBUG'):
                    sys.stderr.write(f'[{time.time()-report.t0:6.1f}s] done {job.get("name")} paths={r["paths"]} left={len(r["left"])} pending={len(pending)} queue={len(queue)}\n')
                left = r['left']
                if left:
                    if deadline and time.time() > deadline:
                        total['inconclusive'].append(f'deadline reached with {len(left)} unexplored prefixes in job {job.get("name")}')
                    else:
                        # split leftovers so that idle workers get something to do
                        idle = max(0, NPROC * 3 - len(pending) - len(queue))
                        k = max(1, min(len(left), max(2, idle)))
                        chunks = [left[i::k] for i in range(k)]
                        for c in chunks:
                            if c: queue.append((job, c, budget_per_task))
            submit()
    return total

KNOWN_PATH = os.path.join(ROOT, 'known_findings.json')
def load_known():
    try: return json.load(open(KNOWN_PATH))
    except OSError: return {'findings': [], 'fixed': []}

def finish(check, report):
    """replay candidates, match known findings, write evidence, print verdict, return exit code"""
    pid = report.pid; total = report.total
    outdir = os.path.join(OUT_ROOT, 'out', pid); os.makedirs(outdir, exist_ok=True)
    for f in os.listdir(outdir):
        if f.endswith('.json'): os.remove(os.path.join(outdir, f))
    known = [k for k in load_known().get('findings', []) if k['property'] == pid]
    # de-duplicate candidates by role+case
    seen = set(); cands = []
    for c in total['candidates']:
        key = json.dumps([c.get('role'), c['case']], sort_keys=True)
        if key in seen: continue
        seen.add(key); cands.append(c)
    # keep the replay volume bounded: at most 40 per role
    per_role = {}
    picked = []
    for c in cands:
        n = per_role.get(c.get('role'), 0)
        if n < getattr(check, 'MAX_REPLAY_PER_ROLE', 40): picked.append(c); per_role[c.get('role')] = n + 1
    confirmed = []
    if picked:
        import replay_client
        results = replay_client.run_cases([c['case'] for c in picked], profiles=getattr(check, 'REPLAY_PROFILES', ['dev']), timeout=getattr(check, 'REPLAY_TIMEOUT', 600))
        for c, outs in zip(picked, results):
            ok, why = check.confirm(c, outs)
            if ok: c['replayed'] = outs; c['why'] = why; confirmed.append(c)
            else: report.mismatches.append({'case': c['case'], 'role': c.get('role'), 'detail': c.get('detail'), 'replayed': outs, 'why': why})
    n_viol = 0
    printed_known = set()
    for c in confirmed:
        hit = None
        for k in known:
            if k['role'] == c.get('role') and check.known_match(k, c):
                hit = k; break
        if hit:
            if hit['id'] not in printed_known:
                printed_known.add(hit['id'])
                print(f"KNOWN-FINDING: property={pid} {hit['id']}: {hit['what']} (e.g. {json.dumps(c['case'], ensure_ascii=False)[:160]})")
            report.known_hits.append({'id': hit['id'], 'case': c['case']})
            continue
        n_viol += 1
        if n_viol <= 25:
            path = os.path.join(outdir, f'{n_viol}.json')
            json.dump({'property': pid, 'role': c.get('role'), 'case': c['case'], 'expected': c.get('expect'), 'detail': c.get('detail'),
                       'replayed': c.get('replayed'), 'why': c.get('why')}, open(path, 'w'), indent=1, ensure_ascii=False, default=str)
            print(f'VIOLATION property={pid} replay={path}')
            print(f'  role={c.get("role")} case={json.dumps(c["case"], ensure_ascii=False)[:200]} :: {c.get("why")}')
        report.violations.append(c)
    missing = [w for w in report.required_witnesses if total['witnesses'].get(w, 0) == 0]
    for w in missing: total['inconclusive'].append(f'vacuity: witness "{w}" was never reached')
    inconclusive = list(total['inconclusive'])
    if report.mismatches:
        inconclusive.append(f'MODEL-MISMATCH: {len(report.mismatches)} solver model(s) did not reproduce against the real build, e.g. {json.dumps(report.mismatches[0], default=str, ensure_ascii=False)[:400]}')
    undis = total['obligations'] - total['discharged']
    if undis > len(cands) and not inconclusive and not n_viol and not report.known_hits:
        inconclusive.append(f'{undis} obligation(s) were neither discharged nor turned into a replayable counterexample')
    wall = time.time() - report.t0
    ev = {
        'property_id': pid, 'tier': report.tier, 'seed': report.seed, 'level': 'model_checking',
        'coverage': {
            'states': max(total['paths'], 0), 'transitions': max(total['decisions'] + total['queries'], 0),
            'traces_validated_against_impl': report.validated,
            'samples': total['samples'][:12] or ['(no path completed)'],
            'obligations': total['obligations'], 'discharged': total['discharged'],
            'jobs': report.jobs, 'paths_by_outcome': total['outcomes'], 'infeasible_prefixes': total['infeasible'],
            'branch_decisions': total['decisions'], 'solver_queries': total['queries'], 'solver_s': round(total['solver_s'], 2),
            'mir_statements_executed': total['steps'],
            'bound_hits': total['bound_hits'], 'witnesses': total['witnesses'],
            'functions_encoded': [f for f in total['functions']][:400],
            'bounds': report.bounds, 'outside_bounds': report.outside, 'models_used': report.models_used,
            'inconclusive': inconclusive[:40], 'known_findings_seen': sorted(printed_known),
            'candidates_replayed': len(picked), 'model_mismatches': len(report.mismatches),
            'cvc5_cross_check': total.get('cvc5', {}),
            'exhaustive': False,
            'explanation': 'states = symbolic paths of the real MIR fully explored; transitions = solver-decided branch decisions + solver queries; every obligation is PC ∧ ¬assertion checked unsat by z3',
        },
        'assumptions': report.assumptions,
        'wall_s': round(wall, 2), 'violations': n_viol,
    }
    ev['coverage'].update(report.extra)
    os.makedirs(os.path.join(OUT_ROOT, 'evidence'), exist_ok=True)
    json.dump(ev, open(os.path.join(OUT_ROOT, 'evidence', pid + '.json'), 'w'), indent=1, ensure_ascii=False, default=str)
    print(f'[{pid}] tier={report.tier} paths={total["paths"]} obligations={total["obligations"]} discharged={total["discharged"]} '
          f'candidates={len(cands)} confirmed={len(confirmed)} known={len(report.known_hits)} violations={n_viol} '
          f'inconclusive={len(inconclusive)} bound_hits={total["bound_hits"]} solver_s={total["solver_s"]:.1f} wall={wall:.1f}s')
    if n_viol: return 1
    if inconclusive:
        for s in inconclusive[:15]: print('  INCONCLUSIVE:', s[:400])
        return 2
    return 0

def main(check):
    import argparse
    ap = argparse.ArgumentParser()
    ap.add_argument('--tier', default=os.environ.get('VERIF_TIER', 'quick'))
    ap.add_argument('--replay', default=None)
    ap.add_argument('--job', default=None, help='run only jobs whose name contains this')
    a = ap.parse_args(sys.argv[2:] if len(sys.argv) > 1 and not sys.argv[1].startswith('-') else sys.argv[1:])
    seed = int(os.environ.get('VERIF_SEED', '0') or 0)
    pid = check.ID
    if a.replay:
        import replay_client
        rec = json.load(open(a.replay))
        outs = replay_client.run_cases([rec['case']], profiles=getattr(check, 'REPLAY_PROFILES', ['dev']), timeout=getattr(check, 'REPLAY_TIMEOUT', 600))[0]
        c = {'case': rec['case'], 'role': rec.get('role'), 'expect': rec.get('expected'), 'detail': rec.get('detail')}
        ok, why = check.confirm(c, outs)
        print(json.dumps({'case': rec['case'], 'replayed': outs, 'violates': ok, 'why': why}, ensure_ascii=False, default=str))
        if ok: print(f'VIOLATION property={pid} replay={a.replay}')
        return 1 if ok else 0
    report = Report(pid, a.tier, seed)
    try:
        for p_ in getattr(check, 'PROFILES', ['dev'])[0].split('+'): mirfront.dump(p_)
    except mirfront.BuildError as e:
        print(f'[{pid}] BUILD FAILURE: {e}'); return 2
    jobs = check.jobs(a.tier, seed, report)
    if a.job: jobs = [j for j in jobs if a.job in j.get('name', '')]
    limit = check.TIME_LIMIT.get(a.tier, 600) if hasattr(check, 'TIME_LIMIT') else 600
    deadline = time.time() + limit
    if hasattr(check, 'validate'):
        try: report.validated = check.validate(a.tier, seed, report)
        except Exception as e:
            report.total['inconclusive'].append('translator validation failed: ' + traceback.format_exc()[-800:])
    run_parallel(check, jobs, getattr(check, 'BUDGET', 400), deadline, report)
    return finish(check, report)
