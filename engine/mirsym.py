"""mirsym: symbolic executor over rustc MIR text with a z3 back end.

Path-wise execution, forking by re-execution (a path = list of boolean decisions).  Machine integers are
mathematical Ints plus explicit overflow semantics (checked ops + assert in dev MIR, wrapping in release MIR),
num::BigInt -> Int, Ratio<BigInt> -> Real.  Aggregates are mutable python trees, references are (cell, path).
"""
import re, sys, time, os, glob
import z3
import mirparse as mp

class Unsupported(Exception): pass
class PathEnd(Exception):
    def __init__(self, kind, info=None):
        Exception.__init__(self, kind, info); self.kind = kind; self.info = info
class Infeasible(Exception): pass
class Fallthrough(Exception): pass

# ---------- values ----------
class VInt:
    __slots__ = ('v', 'ty')
    def __init__(self, v, ty): self.v = v; self.ty = ty   # v: python int or z3 Int expr
    def __repr__(self): return f'{self.v}_{self.ty}'
class VBool:
    __slots__ = ('v',)
    def __init__(self, v): self.v = v
    def __repr__(self): return f'VBool({self.v})'
class VUnit:
    def __repr__(self): return '()'
class VTuple:
    def __init__(self, items): self.items = items
    def __repr__(self): return f'VTuple{self.items}'
class VStruct:
    def __init__(self, name, items): self.name = name; self.items = items
    def __repr__(self): return f'{self.name}{self.items}'
class VEnum:
    def __init__(self, ty, variant, items): self.ty = ty; self.variant = variant; self.items = items
    def __repr__(self): return f'{self.ty.split("::")[-1]}::{self.variant}{self.items if self.items else ""}'
class VRef:
    def __init__(self, cell, path=None): self.cell = cell; self.path = path or []
    def __repr__(self): return f'&{id(self.cell) % 10000}{self.path}'
class VFn:
    def __init__(self, name, closure=None): self.name = name; self.closure = closure; self.items = []
    def __repr__(self): return f'fn {self.name or self.closure}'
class VBig:      # num::BigInt / BigUint  (mathematical integer)
    def __init__(self, v): self.v = v
    def __repr__(self): return f'Big({self.v})'
class VRat:      # num::rational::Ratio<BigInt>  (mathematical rational)
    def __init__(self, v, nd=None): self.v = v; self.nd = nd      # nd: optional (numer, denom) Int pair known for it
    def __repr__(self): return f'Rat({self.v})'
class VFloat:    # opaque f64
    def __init__(self, tag): self.tag = tag
class VObj:      # generic python-model object (iterators, maps, ...)
    def __init__(self, kind, **kw): self.kind = kind; self.__dict__.update(kw)
    def __repr__(self): return f'Obj<{self.kind}>'
class Cell:
    """a mutable storage location"""
    __slots__ = ('val',)
    def __init__(self, val=None): self.val = val

UNINIT = VUnit()

def is_conc(x): return isinstance(x, (int, bool))

INT_RANGE = {'u8': (0, 255), 'u16': (0, 65535), 'u32': (0, 2**32 - 1), 'u64': (0, 2**64 - 1), 'u128': (0, 2**128 - 1), 'usize': (0, 2**64 - 1),
             'i8': (-128, 127), 'i16': (-2**15, 2**15 - 1), 'i32': (-2**31, 2**31 - 1), 'i64': (-2**63, 2**63 - 1), 'i128': (-2**127, 2**127 - 1), 'isize': (-2**63, 2**63 - 1),
             'char': (0, 0x10ffff), 'bool': (0, 1)}

BUILTIN_ENUMS = {
    'Option': {'None': 0, 'Some': 1}, 'Result': {'Ok': 0, 'Err': 1}, 'ControlFlow': {'Continue': 0, 'Break': 1},
    'Entry': {'Vacant': 0, 'Occupied': 1}, 'Ordering': {'Less': -1, 'Equal': 0, 'Greater': 1},
    'Sign': {'Minus': 0, 'NoSign': 1, 'Plus': 2}, 'Cow': {'Borrowed': 0, 'Owned': 1},
    'Bound': {'Included': 0, 'Excluded': 1, 'Unbounded': 2},
}

def zand(*cs):
    cs = [c for c in cs if not (is_conc(c) and c)]
    if any(is_conc(c) and not c for c in cs): return False
    if not cs: return True
    return z3.And(*cs) if len(cs) > 1 else cs[0]
def zor(*cs):
    cs = [c for c in cs if not (is_conc(c) and not c)]
    if any(is_conc(c) and c for c in cs): return True
    if not cs: return False
    return z3.Or(*cs) if len(cs) > 1 else cs[0]
def znot(c):
    return (not c) if is_conc(c) else z3.Not(c)
def zite(c, a, b):
    if is_conc(c): return a if c else b
    if is_conc(a) and is_conc(b) and a == b: return a
    return z3.If(c, a, b)

class Interp:
    def __init__(self, bodies, allocs, models, params=None, src_root='/repo', expanded=None):
        self.bodies = bodies; self.allocs = allocs; self.models = models
        self.params = params or {}
        self.src_root = src_root
        self.stmt_cache = {}
        self.closure_map = None
        self.statics = {}
        self.solver = z3.Solver()
        self.solver.set('timeout', int(self.params.get('query_timeout_ms', 10000)))
        self.model_cache = {}; self._models_len = len(models)
        self.call_cache = {}
        self.suffix_index = None
        self.enums = dict(BUILTIN_ENUMS)
        self.load_enums(src_root)
        if expanded: self.load_local_enums(expanded)
        self.tot = {'decisions': 0, 'solver_s': 0.0, 'queries': 0, 'steps': 0}
        self.functions_run = set()
        self.reset([])

    # ----- path control -----
    def reset(self, prefix):
        self.prefix = list(prefix); self.decisions = []; self.pc = []; self.fresh = 0
        self.pending = []
        self.solver.reset()
        self.depth = 0; self.steps = 0; self.nbranch = 0
        self.notes = []          # free-form per-path notes from models (witness tags etc.)
        self.path_state = {}     # per-path scratch for models
        self.statics_path = {}

    def fresh_int(self, name):
        self.fresh += 1; return z3.Int(f'{name}!{self.fresh}')
    def fresh_real(self, name):
        self.fresh += 1; return z3.Real(f'{name}!{self.fresh}')
    def fresh_bool(self, name):
        self.fresh += 1; return z3.Bool(f'{name}!{self.fresh}')

    def assume(self, c):
        if is_conc(c):
            if not c: raise Infeasible()
            return
        self.pc.append(c); self.solver.add(c)

    def check(self, extra=None):
        t = time.time()
        self.solver.push()
        if extra is not None: self.solver.add(extra)
        r = self.solver.check()
        if r == z3.unknown:
            # one retry on a fresh solver with six times the time (a loaded machine turns honest queries into time-outs)
            try:
                s2 = z3.Solver(); s2.set('timeout', 6 * int(self.params.get('query_timeout_ms', 10000))); s2.set('random_seed', 11)
                s2.add(self.solver.assertions()); r = s2.check(); self.tot['retried_unknown'] = self.tot.get('retried_unknown', 0) + 1
            except Exception: r = z3.unknown
        self.solver.pop()
        self.tot['solver_s'] += time.time() - t; self.tot['queries'] += 1
        return r

    def model_for(self, extra=None):
        t = time.time()
        self.solver.push()
        if extra is not None: self.solver.add(extra)
        r = self.solver.check()
        m = self.solver.model() if r == z3.sat else None
        self.solver.pop()
        self.tot['solver_s'] += time.time() - t; self.tot['queries'] += 1
        return r, m

    def branch(self, cond):
        """decide a boolean; cond python bool or z3 Bool"""
        if is_conc(cond): return bool(cond)
        cond = z3.simplify(cond)
        if z3.is_true(cond): return True
        if z3.is_false(cond): return False
        k = len(self.decisions)
        self.nbranch += 1
        if self.nbranch > self.params.get('max_decisions', 1 << 30): raise PathEnd('bound', 'more than max_decisions solver-decided branches on one path')
        if k < len(self.prefix):
            d = self.prefix[k]
            if not isinstance(d, bool): raise Unsupported('decision stream misaligned (branch)')
        else:
            t = self.check(cond)
            if t == z3.unknown: self.dump_unknown(cond); raise PathEnd('unknown', 'solver unknown on branch feasibility')
            f = self.check(z3.Not(cond))
            if f == z3.unknown: self.dump_unknown(z3.Not(cond)); raise PathEnd('unknown', 'solver unknown on branch feasibility')
            t = t == z3.sat; f = f == z3.sat
            if t and f:
                d = True; self.pending.append(self.decisions + [False])
                self.tot['decisions'] += 1
            elif t: d = True       # forced; still recorded so that re-execution stays aligned
            elif f: d = False
            else: raise Infeasible()
        self.decisions.append(d)
        self.assume(cond if d else z3.Not(cond))
        return d

    def dump_unknown(self, extra):
        d = os.environ.get('VERIF_DUMP_UNKNOWN')
        if not d: return
        try:
            os.makedirs(d, exist_ok=True)
            s2 = z3.Solver(); s2.add(self.solver.assertions()); s2.add(extra)
            open(os.path.join(d, f'unknown-{os.getpid()}-{int(time.time()*1000)}.smt2'), 'w').write(s2.to_smt2())
        except Exception: pass

    def choose(self, conds):
        """pick index i such that conds[i] holds (mutually exclusive, last is 'otherwise')"""
        for i, c in enumerate(conds[:-1]):
            if self.branch(c): return i
        return len(conds) - 1

    def concretize(self, term, limit=64, what='value'):
        """fork over the values the solver reports feasible for an Int term (all-SAT); returns python int.
        Decisions are recorded as ('c', value, taken) so that re-execution needs no solver call."""
        if is_conc(term): return term
        term = z3.simplify(term)
        if z3.is_int_value(term): return term.as_long()
        for _ in range(limit):
            k = len(self.decisions)
            if k < len(self.prefix):
                ent = self.prefix[k]
                if not (isinstance(ent, tuple) and ent[0] == 'c'): raise Unsupported('decision stream misaligned (concretize)')
                self.decisions.append(ent)
                if ent[2]:
                    self.assume(term == ent[1]); return ent[1]
                self.assume(term != ent[1]); continue
            r, m = self.model_for()
            if r != z3.sat:
                if r == z3.unknown: raise PathEnd('unknown', 'solver unknown in concretize')
                raise Infeasible()
            v = m.eval(term, model_completion=True).as_long()
            self.pending.append(self.decisions + [('c', v, False)])
            self.decisions.append(('c', v, True))
            self.tot['decisions'] += 1
            self.assume(term == v)
            return v
        raise PathEnd('bound', f'more than {limit} feasible values for {what}')

    # ----- statics / closures -----
    def build_closure_map(self):
        self.closure_map = {}
        for name, bl in self.bodies.items():
            for b in bl:
                if b.kind == 'fn' and b.args and '{closure@' in b.args[0][1] and '{closure#' in name:
                    m = re.search(r'\{closure@[^}]*\}', b.args[0][1])
                    self.closure_map[m.group(0)] = b

    def get_static(self, name):
        if name in self.statics: return self.statics[name]
        cands = self.find_bodies(name, kinds=('static', 'const', 'static mut'))
        if not cands: raise Unsupported('static ' + name)
        cell = Cell()
        self.statics[name] = cell
        cell.val = self.run_body(cands[0], [])
        return cell

    def build_impl_index(self):
        self.impl_index = {}
        srccache = {}
        for name, bl in self.bodies.items():
            m = re.match(r'^(.*)<impl at ([^:]+):(\d+):(\d+): (\d+):(\d+)>::(\w+)$', name)
            if not m: continue
            f, l, c = m.group(2), int(m.group(3)), int(m.group(4))
            if f not in srccache:
                try: srccache[f] = open(self.src_root + '/' + f).read().split('\n')
                except OSError: srccache[f] = None
            if srccache[f] is None: continue
            text = ' '.join(srccache[f][l-1:l+6])[c-1:]
            if '{' in text and text.startswith('impl'): text = text[:text.index('{') + 1]
            mm = re.match(r'^impl(?:<[^>]*>)?\s+(?:(.+?)\s+for\s+)?(.+?)\s*(?:where|\{)', text)
            if mm:
                trait_raw, self_raw = mm.group(1), mm.group(2)
            else:
                # derive-generated impl: span points at the trait name inside #[derive(..)]
                dm = re.match(r'^(\w+)', text)
                rest = '\n'.join(srccache[f][l-1:l+14])
                im = re.search(r'\b(?:struct|enum)\s+(\w+)', rest)
                if not (dm and im): continue
                trait_raw, self_raw = dm.group(1), im.group(1)
            norm = lambda t: re.sub(r"'\w+\s*,?\s*|\s+|\b\w+::", '', t) if t else None
            trait, selfty = norm(trait_raw), norm(self_raw)
            selfty = re.sub(r'<.*$', '', selfty)
            for b in bl:
                self.impl_index.setdefault((selfty, re.sub(r'<.*$', '', trait) if trait else None, m.group(7)), []).append((trait, b))

    def find_impl(self, callee):
        if not hasattr(self, 'impl_index'): self.build_impl_index()
        norm = lambda t: re.sub(r"'\w+\s*,?\s*|\s+|\b\w+::", '', t)
        m = re.match(r'^<(.+) as ([\w:]+)(<.*>)?>::(\w+)(?:::<.*>)?$', callee)
        if m:
            selfty = re.sub(r'<.*$', '', norm(m.group(1))).lstrip('&')
            selfty = re.sub(r'^mut', '', selfty)
            isref = norm(m.group(1)).startswith('&')
            trait = norm(m.group(2)); targ = norm(m.group(3) or '')
            c = self.impl_index.get((('&' if isref else '') + selfty, trait, m.group(4)), [])
            exact = [b for t, b in c if (t or '') == trait + targ or (not targ and (t or '') in (trait, trait + '<' + selfty + '>', trait + '<Self>'))]
            if len(exact) > 1:
                # same type name in several modules (compound::Display, unit::Display, ..): use the module path of the callee
                raw = re.sub(r'<.*$', '', re.sub(r"^&(?:'\w+ )?(?:mut )?", '', m.group(1).strip()))
                if '::' in raw:
                    mod = raw.rsplit('::', 1)[0]
                    byMod = [b for b in exact if b.name.split('::<impl')[0].split('::')[-1] == mod.split('::')[-1]]
                    if byMod: exact = byMod
            return exact or ([b for t, b in c] if len(c) == 1 else [])
        m = re.match(r'^([\w:]+?)(?:::<[^()]*>)?::(\w+)(?:::<.*>)?$', callee)
        if m:
            selfty = m.group(1).split('::')[-1]
            return [b for t, b in self.impl_index.get((selfty, None, m.group(2)), [])]
        return []

    def find_bodies(self, name, kinds=('fn',)):
        name = name.strip()
        out = []
        if name in self.bodies: out = [b for b in self.bodies[name] if b.kind in kinds]
        if out: return out
        if self.suffix_index is None:
            self.suffix_index = {}
            for k in self.bodies:
                last = k.split('::')[-1]
                self.suffix_index.setdefault(last, []).append(k)
        last = name.split('::')[-1]
        for k in self.suffix_index.get(last, []):
            if k.endswith('::' + name) or name.endswith('::' + k):
                out += [b for b in self.bodies[k] if b.kind in kinds]
        return out

    # ----- memory -----
    def load(self, frame, place):
        val = frame[place[0]].val
        for p in place[1]:
            val = self.project(val, p, frame)
        return val

    def project(self, val, p, frame):
        k = p[0]
        if k == 'deref':
            if isinstance(val, VRef): return self.read_ref(val)
            if type(val).__name__ == 'StrS': return val
            if isinstance(val, VObj) and val.kind == 'box': return val.cell.val
            raise Unsupported(f'deref of {val!r}')
        if k == 'field':
            if type(val).__name__ == 'StrS': return val          # Box<str> / Unique / NonNull wrappers are transparent
            if isinstance(val, (VTuple, VStruct, VEnum)):
                if p[1] >= len(val.items): raise Unsupported(f'field {p[1]} of {val!r}')
                return val.items[p[1]]
            if isinstance(val, VFn) and val.closure: return val.items[p[1]]
            if isinstance(val, VObj) and hasattr(val, 'fields'): return val.fields[p[1]]
            raise Unsupported(f'field {p[1]} of {val!r}')
        if k == 'downcast':
            if isinstance(val, VEnum):
                if val.variant != p[1]: raise Unsupported(f'downcast {val} as {p[1]}')
                return val
            raise Unsupported(f'downcast of {val!r}')
        if k == 'index':
            idx = frame[p[1]].val
            if isinstance(val, VTuple):
                if not is_conc(idx.v) and len(val.items) > 16: return self.table_lookup(val.items, idx.v)
                i = self.concretize(idx.v, what='array index')
                return val.items[i]
            if isinstance(val, VObj) and val.kind == 'vec':
                i = self.concretize(idx.v, what='vec index')
                return val.items[i]
        if k == 'constindex' and isinstance(val, VTuple): return val.items[p[1]]
        raise Unsupported(f'projection {p} of {val!r}')

    def table_lookup(self, items, idx):
        """constant table indexed by a symbolic integer: fork per DISTINCT table value (not per index)"""
        groups = {}; order = []
        for i, it in enumerate(items):
            if isinstance(it, VEnum) and not it.items: key = ('e', it.ty, it.variant)
            elif isinstance(it, (VInt, VBool)) and is_conc(it.v): key = ('s', it.v)
            else: raise Unsupported('symbolic index into a table of non-scalar items')
            if key not in groups: groups[key] = []; order.append(key)
            groups[key].append(i)
        def cond(ix):
            rs = []; a = b = ix[0]
            for i in ix[1:]:
                if i == b + 1: b = i
                else: rs.append((a, b)); a = b = i
            rs.append((a, b))
            return zor(*[(idx == lo) if lo == hi else z3.And(idx >= lo, idx <= hi) for lo, hi in rs])
        # most populous group last (it becomes the 'otherwise')
        order.sort(key=lambda k: len(groups[k]))
        for key in order[:-1]:
            if self.branch(cond(groups[key])): return items[groups[key][0]]
        self.assume(zand(idx >= 0, idx < len(items)))
        return items[groups[order[-1]][0]]

    def read_ref(self, r):
        val = r.cell.val
        for p in r.path: val = self.project(val, p, None)
        return val

    def write_ref(self, r, newval):
        if not r.path: r.cell.val = newval; return
        val = r.cell.val
        for p in r.path[:-1]: val = self.project(val, p, None)
        self.set_proj(val, r.path[-1], newval)

    def set_proj(self, container, p, newval):
        if p[0] == 'field' and isinstance(container, (VTuple, VStruct, VEnum)):
            container.items[p[1]] = newval; return
        if p[0] == 'field' and isinstance(container, VFn): container.items[p[1]] = newval; return
        if p[0] == 'field' and isinstance(container, VObj) and hasattr(container, 'fields'): container.fields[p[1]] = newval; return
        if p[0] == 'deref' and isinstance(container, VRef):
            self.write_ref(container, newval); return
        if p[0] == 'deref' and isinstance(container, VObj) and container.kind == 'box':
            container.cell.val = newval; return
        if p[0] == 'constindex' and isinstance(container, VTuple): container.items[p[1]] = newval; return
        raise Unsupported(f'store {p} into {container!r}')

    def store(self, frame, place, newval):
        cell = frame[place[0]]
        if not place[1]: cell.val = newval; return
        val = cell.val
        path = place[1]
        for i, p in enumerate(path[:-1]):
            if p[0] == 'downcast' and not isinstance(val, VEnum):
                # writing the fields of a not-yet-initialised enum: create the variant in place
                raise Unsupported('downcast store into uninitialised enum')
            val = self.project(val, p, frame)
        last = path[-1]
        if last[0] == 'downcast': return
        if last[0] == 'index':
            idx = frame[last[1]].val
            i = self.concretize(idx.v, what='array index')
            last = ('constindex', i)
            if isinstance(val, VObj) and val.kind == 'vec': val.items[i] = newval; return
        self.set_proj(val, last, newval)

    def make_ref(self, frame, place):
        # normalise: walk until the last deref, so the ref points into the target cell
        cell = frame[place[0]]; path = []
        val = cell.val
        for p in place[1]:
            if p[0] == 'deref':
                if isinstance(val, VRef):
                    cell = val.cell; path = list(val.path); val = self.read_ref(val); continue
                if isinstance(val, VObj) and val.kind == 'box':
                    cell = val.cell; path = []; val = cell.val; continue
                if type(val).__name__ == 'StrS': continue          # Box<str> / String: the string is its own pointee
                raise Unsupported(f'ref through {val!r}')
            if p[0] == 'downcast': continue
            if p[0] == 'index':
                i = self.concretize(frame[p[1]].val.v, what='array index')
                if isinstance(val, VObj) and val.kind == 'vec':
                    # vec elements live in the list; hand out a ref to a wrapper cell that aliases the slot
                    cell = VecSlot(val, i); path = []; val = val.items[i]; continue
                p = ('field', i)
            if p[0] == 'constindex': p = ('field', p[1])
            path.append(p)
            val = self.project(val, p, frame)
        return VRef(cell, path)

    def copyval(self, v):
        if isinstance(v, VTuple): return VTuple([self.copyval(x) for x in v.items])
        if isinstance(v, VStruct): return VStruct(v.name, [self.copyval(x) for x in v.items])
        if isinstance(v, VEnum): return VEnum(v.ty, v.variant, [self.copyval(x) for x in v.items])
        return v    # scalars / refs / model objects are immutable or shared by design

    # ----- constants -----
    def const(self, text, ty=None):
        t = text.strip()
        m = re.match(r'^(-?\d+)_(\w+)$', t)
        if m: return VInt(int(m.group(1)), m.group(2))
        if t in ('true', 'false'): return VBool(t == 'true')
        m = re.match(r'^(?:(?:std|core)::)?([iu](?:8|16|32|64|128|size))::(MIN|MAX|BITS)$', t)
        if m:
            lo, hi = INT_RANGE[m.group(1)]
            if m.group(2) == 'BITS': return VInt({'8': 8, '16': 16, '32': 32, '64': 64, '128': 128, 'size': 64}[m.group(1)[1:]], 'u32')
            return VInt(lo if m.group(2) == 'MIN' else hi, m.group(1))
        if t == '()': return VUnit()
        if re.match(r'^(?:std::marker::|core::marker::)?PhantomData(::<.*>)?$', t): return VStruct('PhantomData', [])
        m = re.match(r'^b"(.*)"$', t, re.S)
        if m:      # byte string literal: &[u8; N]
            return VRef(Cell(VTuple([VInt(ord(ch) & 0xff, 'u8') for ch in decode_rust_str(m.group(1))])), [])
        m = re.match(r'^"(.*)"$', t, re.S)
        if m:
            return self.str_const(decode_rust_str(m.group(1)))
        m = re.match(r"^'(.*)'$", t, re.S)
        if m:
            c = decode_rust_str(m.group(1))
            return VInt(ord(c), 'char')
        if t.endswith('SizedTypeProperties>::ALIGN'): return VInt(8, 'usize')
        if t.endswith('SizedTypeProperties>::SIZE'): return VInt(8, 'usize')
        m = re.match(r'^ZeroSized: (\{closure@[^}]*\})$', t)
        if m: return VFn(None, closure=m.group(1))
        m = re.match(r'^\{(alloc\d+)(?:<imm>)?: .*\}$', t)
        if m:
            a = self.allocs.get(m.group(1))
            if a and a[0] == 'static': return VRef(self.get_static(a[1]), [])
            if a and a[0] == 'bytes' and a[1] is not None:
                return VRef(Cell(VTuple([VInt(b, 'u8') for b in a[1]])), [])
            raise Unsupported('const alloc ' + t)
        m = re.match(r'^((?:std|core)::(?:option::Option|result::Result|ops::ControlFlow))::<.*>::(\w+)(?:\((.*)\))?$', t)
        if m:
            inner = [self.const(m.group(3))] if m.group(3) else []
            return VEnum(m.group(1).split('::')[-1], m.group(2), inner)
        if '::promoted[' in t or '::{constant#' in t:
            if t in self.statics: return self.statics[t]
            cands = self.find_bodies(t, kinds=('const',))
            if not cands:
                # promoted constant of a trait method:  <T as Trait>::method::promoted[n]  ->  <impl at ..>::method::promoted[n]
                mm = re.match(r'^(.*)::(promoted\[\d+\]|\{constant#\d+\})$', t)
                if mm:
                    outer = [b for b in self.find_impl(mm.group(1)) if b.kind == 'fn']
                    if len(outer) == 1: cands = [b for b in self.bodies.get(outer[0].name + '::' + mm.group(2), []) if b.kind == 'const']
            if cands:
                self.statics[t] = self.run_body(cands[0], [])
                return self.statics[t]
            raise Unsupported('promoted ' + t)
        # fn item used as a value:  path::to::function
        m = re.match(r'^([\w:<>, &\'\[\]]+)$', t)
        if m:
            name = m.group(1)
            cands = self.find_bodies(name, kinds=('const', 'static'))
            if cands:
                if cands[0].kind == 'static': return self.get_static(name).val
                key = 'const:' + name
                if key not in self.statics: self.statics[key] = self.run_body(cands[0], [])
                return self.copyval(self.statics[key])
            ic = [b for b in self.find_impl(name) if b.kind == 'const']
            if len(ic) == 1:
                key = 'const:' + name
                if key not in self.statics: self.statics[key] = self.run_body(ic[0], [])
                return self.copyval(self.statics[key])
            base = re.sub(r'::<.*>$', '', name)
            mm = re.match(r'^(.*)::(\w+)$', base)
            if mm and self.is_enum_type(mm.group(1)) and mm.group(2) in self.enum_table(mm.group(1)):
                return VEnum(mm.group(1), mm.group(2), [])
            if self.find_bodies(name) or self.find_impl(name):
                return VFn(name)
            return VStruct(name, [])
        m = re.match(r'^([\w:]+)\(\(\)\)$', t)
        if m: return VStruct(m.group(1), [VUnit()])
        m = re.match(r'^([\w:]+(?:<.*>)?) \{\{\s*\}\}$', t)       # `Name {{  }}`: a struct without fields
        if m: return VStruct(m.group(1), [])
        if t.startswith('{closure@') or t.startswith('ZeroSized'):
            m = re.search(r'\{closure@[^}]*\}', t)
            if m: return VFn(None, closure=m.group(0))
        raise Unsupported('const ' + t)

    def str_const(self, s):
        from models.strings import StrS
        return VRef(Cell(StrS.from_text(s)), [])

    # ----- operands / rvalues -----
    def operand(self, frame, op):
        if op[0] == 'const': return self.const(op[1])
        v = self.load(frame, op[1])
        return self.copyval(v) if op[0] == 'copy' else v

    def wrap(self, r, ty):
        lo, hi = INT_RANGE[ty]
        if is_conc(r): return (r - lo) % (hi - lo + 1) + lo
        if self.check(z3.Or(r < lo, r > hi)) == z3.unsat: return r
        return (r - lo) % (hi - lo + 1) + lo

    def int_binop(self, name, a, b):
        ty = a.ty
        x, y = a.v, b.v
        lo, hi = INT_RANGE[ty]
        if name in ('Add', 'Sub', 'Mul', 'AddWithOverflow', 'SubWithOverflow', 'MulWithOverflow', 'AddUnchecked', 'SubUnchecked', 'MulUnchecked'):
            r = {'A': x + y, 'S': x - y, 'M': x * y}[name[0]]
            ovf = (not (lo <= r <= hi)) if is_conc(r) else z3.Or(r < lo, r > hi)
            if name.endswith('WithOverflow'):
                # the mathematical value is kept; the assert(!overflow) that follows decides
                return VTuple([VInt(r, ty), VBool(ovf)])
            if name.endswith('Unchecked'):
                return VInt(r, ty)
            return VInt(self.wrap(r, ty), ty)
        if name in ('Eq', 'Ne', 'Lt', 'Le', 'Gt', 'Ge'):
            r = {'Eq': x == y, 'Ne': x != y, 'Lt': x < y, 'Le': x <= y, 'Gt': x > y, 'Ge': x >= y}[name]
            return VBool(r)
        if name == 'Cmp':
            if is_conc(x) and is_conc(y):
                return VEnum('Ordering', 'Less' if x < y else ('Equal' if x == y else 'Greater'), [])
            i = self.choose([x < y, x == y, True])
            return VEnum('Ordering', ['Less', 'Equal', 'Greater'][i], [])
        if name in ('Div', 'Rem'):
            if is_conc(x) and is_conc(y):
                if y == 0: raise PathEnd('panic', 'division by zero')
                q = abs(x) // abs(y) * (1 if (x >= 0) == (y >= 0) else -1)
                return VInt(q if name == 'Div' else x - q * y, ty)
            if is_conc(y) and y > 0:
                if ty.startswith('u') or self.check(x < 0) == z3.unsat:
                    return VInt(x / y if name == 'Div' else x % y, ty)
                # truncating division of a possibly negative dividend by a positive constant
                q = z3.If(x >= 0, x / y, -((-x) / y))
                return VInt(q if name == 'Div' else x - q * y, ty)
            raise Unsupported('symbolic divisor')
        if name in ('BitAnd', 'BitOr', 'BitXor', 'Shl', 'Shr', 'ShlUnchecked', 'ShrUnchecked'):
            if is_conc(x) and is_conc(y):
                if name == 'BitAnd': return VInt(x & y, ty)
                if name == 'BitOr': return VInt(x | y, ty)
                if name == 'BitXor': return VInt(x ^ y, ty)
                if name.startswith('Shl'): return VInt(self.wrap(x << y, ty), ty)
                return VInt(x >> y, ty)
            if name == 'BitAnd' and is_conc(y) and y >= 0 and (y & (y + 1)) == 0 and not ty.startswith('i'):
                return VInt(x % (y + 1), ty)
            if name.startswith('Shr') and is_conc(y) and not ty.startswith('i'):
                return VInt(x / (2 ** y), ty)
            if name.startswith('Shl') and is_conc(y):
                return VInt(self.wrap(x * (2 ** y), ty), ty)
            # generic: go through bit-vectors
            bits = {'8': 8, '16': 16, '32': 32, '64': 64, '128': 128, 'size': 64}[ty.lstrip('ui')]
            bx = z3.Int2BV(x if not is_conc(x) else z3.IntVal(x), bits); by = z3.Int2BV(y if not is_conc(y) else z3.IntVal(y), bits)
            rb = {'BitAnd': bx & by, 'BitOr': bx | by, 'BitXor': bx ^ by}.get(name)
            if rb is None: raise Unsupported('symbolic shift')
            return VInt(z3.BV2Int(rb, ty.startswith('i')), ty)
        raise Unsupported('binop ' + name)

    def rvalue(self, frame, rv, destty):
        k = rv[0]
        if k == 'use': return self.operand(frame, rv[1])
        if k == 'ref': return self.make_ref(frame, rv[1])
        if k == 'binop':
            a = self.operand(frame, rv[2]); b = self.operand(frame, rv[3])
            if isinstance(a, VBool) and isinstance(b, VBool):
                op = rv[1]
                if op == 'Eq': return VBool(a.v == b.v)
                if op == 'Ne': return VBool(a.v != b.v if is_conc(a.v) and is_conc(b.v) else z3.Xor(z3.BoolVal(a.v) if is_conc(a.v) else a.v, z3.BoolVal(b.v) if is_conc(b.v) else b.v))
                if op == 'BitAnd': return VBool(zand(a.v, b.v))
                if op == 'BitOr': return VBool(zor(a.v, b.v))
                if op == 'BitXor': return VBool(a.v != b.v if is_conc(a.v) and is_conc(b.v) else z3.Xor(z3.BoolVal(a.v) if is_conc(a.v) else a.v, z3.BoolVal(b.v) if is_conc(b.v) else b.v))
            if isinstance(a, VInt) and isinstance(b, VInt):
                return self.int_binop(rv[1], a, b)
            if rv[1] in ('Eq', 'Ne') and isinstance(a, (VFn, VRef)) and isinstance(b, (VFn, VRef)):
                same = (a is b) or (isinstance(a, VRef) and isinstance(b, VRef) and a.cell is b.cell and a.path == b.path)
                return VBool(same if rv[1] == 'Eq' else not same)
            raise Unsupported(f'binop {rv[1]} on {a!r}, {b!r}')
        if k == 'unop':
            a = self.operand(frame, rv[2])
            if rv[1] == 'Not' and isinstance(a, VBool): return VBool(znot(a.v))
            if rv[1] == 'Neg' and isinstance(a, VInt): return VInt(self.wrap(-a.v, a.ty), a.ty)
            if rv[1] == 'Not' and isinstance(a, VInt) and is_conc(a.v):
                lo, hi = INT_RANGE[a.ty]
                return VInt(hi - a.v + lo if a.ty.startswith('u') else ~a.v, a.ty)
            if rv[1] == 'PtrMetadata':
                v = a
                while isinstance(v, VRef): v = self.read_ref(v)
                from models.strings import StrS
                if isinstance(v, StrS): return VInt(v.blen(), 'usize')
                if isinstance(v, VTuple): return VInt(len(v.items), 'usize')
                if isinstance(v, VObj) and v.kind in ('vec', 'slice'): return VInt(len(v.items), 'usize')
            raise Unsupported(f'unop {rv[1]} on {a!r}')
        if k == 'discriminant':
            v = self.load(frame, rv[1])
            if isinstance(v, VEnum): return VInt(self.variant_index(v), destty.strip() if destty and destty.strip() in INT_RANGE else 'isize')
            raise Unsupported(f'discriminant of {v!r}')
        if k == 'len':
            v = self.load(frame, rv[1])
            if isinstance(v, VTuple): return VInt(len(v.items), 'usize')
            raise Unsupported(f'Len of {v!r}')
        if k == 'tuple': return VTuple([self.operand(frame, o) for o in rv[1]])
        if k == 'array': return VTuple([self.operand(frame, o) for o in rv[1]])
        if k == 'repeat':
            v = self.operand(frame, rv[1]); n = int(re.match(r'\s*(\d+)', rv[2]).group(1))
            return VTuple([self.copyval(v) for _ in range(n)])
        if k == 'adt_struct':
            path = rv[1]; items = [self.operand(frame, o) for _, o in rv[2]]
            m = re.match(r'^(.*)::(\w+)$', re.sub(r'::<.*>(?=::\w+$)', '', path))
            if m and self.is_enum_type(m.group(1)) and m.group(2) in self.enum_table(m.group(1)):
                return VEnum(m.group(1), m.group(2), items)
            if destty and '::' not in path and self.is_enum_type(destty) and path in self.enum_table(destty):
                return VEnum(destty, path, items)
            return VStruct(path, items)
        if k == 'adt_tuple' or k == 'adt_unit':
            path = rv[1]; items = [self.operand(frame, o) for o in rv[2]] if k == 'adt_tuple' else []
            m = re.match(r'^(.*)::(\w+)$', re.sub(r'::<.*>(?=::\w+$)', '', path))
            if m and self.is_enum_type(m.group(1)) and m.group(2) in self.enum_table(m.group(1)):
                return VEnum(m.group(1), m.group(2), items)
            if destty and '::' not in path and self.is_enum_type(destty) and path in self.enum_table(destty):
                return VEnum(destty, path, items)
            return VStruct(path, items)
        if k == 'closure':
            f = VFn(None, closure=rv[1]); f.items = [self.operand(frame, o) for _, o in rv[2]]
            return f
        if k == 'cast':
            v = self.operand(frame, rv[1]); kind = rv[3]; ty = rv[2].strip()
            if kind == 'IntToInt':
                if isinstance(v, VBool): v = VInt(zite(v.v, 1, 0), 'u8')
                if isinstance(v, VEnum): v = VInt(self.variant_index(v), 'isize')
                if isinstance(v, VInt):
                    lo, hi = INT_RANGE[ty]
                    if is_conc(v.v): return VInt((v.v - lo) % (hi - lo + 1) + lo, ty)
                    slo, shi = INT_RANGE[v.ty]
                    if lo <= slo and shi <= hi: return VInt(v.v, ty)
                    return VInt(self.wrap(v.v, ty), ty)
            if kind.startswith('PointerCoercion'): return v
            if kind == 'Transmute' and ty in INT_RANGE and not isinstance(v, (VInt, VBool)): return VInt(4096, ty)   # address of an allocation: only used by debug alignment checks
            if kind in ('Transmute', 'PtrToPtr', 'FnPtrToPtr', 'PointerExposeProvenance'): return v
            raise Unsupported('cast ' + kind + f' of {v!r}')
        if k == 'fnptr':
            return VFn(rv[1])
        raise Unsupported('rvalue ' + k)

    def load_enums(self, root):
        for f in glob.glob(root + '/src/**/*.rs', recursive=True):
            try: txt = open(f).read()
            except OSError: continue
            for m in re.finditer(r'\benum (\w+)(?:<[^>]*>)?\s*\{', txt):
                try: j = mp.find_matching(txt, m.end() - 1)
                except ValueError: continue
                body = re.sub(r'//[^\n]*', '', txt[m.end():j])
                body = re.sub(r'#\[[^\]]*\]', '', body)
                vs = []
                for part in mp.split_top(body):
                    mm = re.match(r'^(\w+)', part.strip())
                    if mm: vs.append(mm.group(1))
                if m.group(1) not in BUILTIN_ENUMS:
                    self.enums[m.group(1)] = {v: i for i, v in enumerate(vs)}

    def load_local_enums(self, path):
        """enums declared inside function bodies by macros (logos `enum Jump {..}` per goto function): keyed
        'fn::Enum' and 'ImplType|fn::Enum' from the macro-expanded source (declaration order = discriminants)"""
        try: txt = open(path).read()
        except OSError: return
        impls = [(m.start(), m.group(1)) for m in re.finditer(r"impl<'s> ::logos::Logos<'s> for (\w+)", txt)]
        seen = {}
        for m in re.finditer(r"fn (\w+)<'s>\(lex: &mut Lexer<'s>\)\s*\{\s*enum (\w+) \{([^}]*)\}", txt):
            owner = None
            for pos, name in impls:
                if pos < m.start(): owner = name
            vs = [v.strip() for v in m.group(3).split(',') if v.strip()]
            table = {v: i for i, v in enumerate(vs)}
            key = f'{m.group(1)}::{m.group(2)}'
            self.enums[f'{owner}|{key}'] = table
            seen.setdefault(key, []).append(table)
        for key, ts in seen.items():
            if len(ts) == 1: self.enums[key] = ts[0]

    def enum_base(self, tyname):
        t = tyname.strip(); selfty = None
        if t.startswith('<'):
            j = match_angle(t, 0)
            if j > 0:
                selfty = t[1:j].split(' as ')[0].split('::')[-1]
                t = t[j + 1:].lstrip(':')
        segs = re.sub(r'<.*$', '', t).split('::')
        last = segs[-1]
        if last in self.enums or len(segs) < 2: return last
        k2 = f'{segs[-2]}::{last}'
        if k2 in self.enums: return k2
        if selfty and f'{selfty}|{k2}' in self.enums: return f'{selfty}|{k2}'
        return last
    def is_enum_type(self, tyname):
        return self.enum_base(tyname) in self.enums
    def enum_table(self, tyname):
        return self.enums[self.enum_base(tyname)]
    def variant_index(self, v):
        if v.ty.endswith('__Field'):          # serde_derive field identifiers: __field0.., __ignore
            mm = re.match(r'^__field(\d+)$', v.variant)
            if mm: return int(mm.group(1))
        base = self.enum_base(v.ty)
        table = self.enums.get(base)
        if table is None: raise Unsupported('enum layout of ' + v.ty)
        return table[v.variant]

    # ----- calls -----
    def call(self, callee, args, destty=None):
        self.depth += 1
        if self.depth > 200: raise PathEnd('bound', 'call depth > 200')
        try:
            if isinstance(callee, VStruct) and not callee.items: callee = callee.name      # fn item of a library function passed as a value
            if isinstance(callee, VEnum) and not callee.items:      # tuple-variant constructor used as a function value
                return VEnum(callee.ty, callee.variant, list(args))
            if isinstance(callee, VFn):
                if callee.closure:
                    if self.closure_map is None: self.build_closure_map()
                    b = self.closure_map.get(callee.closure)
                    if not b: raise Unsupported('closure body ' + callee.closure)
                    selfarg = VRef(Cell(callee), []) if b.args[0][1].strip().startswith('&') else callee
                    if len(b.args) != len(args) + 1 and len(args) == 1 and isinstance(args[0], VTuple):
                        args = list(args[0].items)       # rust-call ABI: arguments arrive as one tuple
                    return self.run_body(b, [selfarg] + args)
                callee = callee.name
            if len(self.models) != self._models_len:
                # a check installed further models (possibly through another Interp of this process): cached dispatch is stale
                self.model_cache.clear(); self._models_len = len(self.models)
            hit = self.model_cache.get(callee)
            if hit is None:
                hit = []
                for pat, fn in self.models:
                    m = pat.match(callee)
                    if m: hit.append((m, fn))
                self.model_cache[callee] = hit
            for m, fn in hit:
                try: return fn(self, m, args, destty)
                except Fallthrough: pass
            cands = self.call_cache.get(callee)
            if cands is None:
                name = strip_generic_suffix(callee)
                # exact key first, then inherent/trait impls (a method `Type::<'_>::eval` must not be taken for the
                # free function that rustc prints with the trimmed path `eval`), then path-suffix matching
                cands = [b for b in self.bodies.get(name.strip(), []) if b.kind == 'fn']
                if not cands and callee.startswith('<'):
                    # function nested in a trait method:  <T as Trait<..>>::method::inner  ->  <impl ..>::method::inner
                    j = match_angle(callee, 0)
                    mm = re.match(r'^::(\w+)::(\w+)$', callee[j + 1:]) if j > 0 else None
                    if mm:
                        outer = [b for b in self.find_impl(callee[:j + 1] + '::' + mm.group(1)) if b.kind == 'fn']
                        if len(outer) == 1:
                            cands = [b for b in self.bodies.get(outer[0].name + '::' + mm.group(2), []) if b.kind == 'fn']
                if not cands: cands = [b for b in self.find_impl(callee) if b.kind == 'fn']
                if not cands: cands = self.find_bodies(name)
                if not cands and callee.startswith('<'):
                    # impl of a type that is local to a function (serde_derive helper structs): match by the type's last
                    # path segment in the signature of a body with that method name
                    j = match_angle(callee, 0)
                    mm = re.match(r'^::(\w+)', callee[j + 1:]) if j > 0 else None
                    if mm:
                        selfty = callee[1:j].rsplit(' as ', 1)[0]
                        seg = re.sub(r'<.*$', '', selfty.split('::')[-1])
                        hits = [b for k_, bl in self.bodies.items() if k_.endswith('::' + mm.group(1)) for b in bl
                                if b.kind == 'fn' and (seg in (b.ret or '') or any(seg in t for _, t in b.args))]
                        if len(hits) > 1:
                            parts = re.sub(r"<'\w+>", '', selfty).split('::')
                            if len(parts) >= 2:
                                prev = re.sub(r'<.*$', '', parts[-2])
                                narrowed = [b for b in hits if f'::{prev}::' in b.name]
                                if narrowed: hits = narrowed
                        if len(hits) == 1 and len(seg) > 3: cands = hits
                self.call_cache[callee] = cands
            if len(cands) > 1:
                cands = [b for b in cands if len(b.args) == len(args) and self.args_match(b, args)] or cands
            if len(cands) != 1:
                raise Unsupported(f'callee {callee} ({len(cands)} candidates)')
            return self.run_body(cands[0], args)
        finally:
            self.depth -= 1

    def args_match(self, body, args):
        for (n, ty), a in zip(body.args, args):
            t = ty.strip()
            isref = t.startswith('&')
            if isref != isinstance(a, VRef): return False
        return True

    def run_body(self, body, args):
        if getattr(body, 'simple', None) is not None: return self.const(body.simple)
        self.functions_run.add(body.name)
        frame = {n: Cell(UNINIT) for n in body.locals}
        frame[0] = Cell(UNINIT)
        for (n, ty), a in zip(body.args, args): frame[n].val = a
        bb = 0
        max_steps = self.params.get('max_steps', 400000)
        while True:
            stmts = body.blocks[bb]
            nxt = None
            for raw in stmts:
                self.steps += 1
                if self.steps > max_steps: raise PathEnd('bound', 'step budget exhausted')
                st = self.stmt_cache.get(raw)
                if st is None:
                    try: st = mp.parse_stmt(raw)
                    except Exception as e: raise Unsupported(f'MIR statement not parsed: {raw[:100]}')
                    self.stmt_cache[raw] = st
                k = st[0]
                if k == 'nop': continue
                if k == 'assign':
                    val = self.rvalue(frame, st[2], body.locals.get(st[1][0]) if not st[1][1] else None)
                    self.store(frame, st[1], val)
                elif k == 'goto': nxt = st[1]
                elif k == 'return':
                    return frame[0].val
                elif k == 'switch':
                    v = self.operand(frame, st[1])
                    x = v.v
                    tg = st[2]
                    chosen = None
                    if isinstance(v, VBool):
                        d = self.branch(x)
                        chosen = tg.get('1' if d else '0', tg.get('otherwise'))
                        if chosen is None: raise Unsupported('bool switch')
                    else:
                        lo, hi = INT_RANGE.get(v.ty, (0, 0))
                        span = hi - lo + 1
                        def key_val(kk):
                            n = int(kk)
                            return n - span if (lo < 0 and n > hi) else n
                        if is_conc(x):
                            for kk in tg:
                                if kk not in ('otherwise', 'unwind') and key_val(kk) == x: chosen = tg[kk]; break
                            if chosen is None: chosen = tg.get('otherwise')
                        else:
                            for kk in tg:
                                if kk in ('otherwise', 'unwind'): continue
                                if self.branch(x == key_val(kk)): chosen = tg[kk]; break
                            if chosen is None: chosen = tg.get('otherwise')
                        if chosen is None: raise PathEnd('unreachable', 'switch without target')
                    nxt = chosen
                elif k == 'call':
                    dest, callee, cargs, ret = st[1], st[2], st[3], st[4]
                    argv = [self.operand(frame, a) for a in cargs]
                    m = re.match(r'^(?:move|copy) (.*)$', callee)
                    if m:
                        fnv = self.load(frame, mp.parse_place(m.group(1)))
                        res = self.call(fnv, argv)
                    else:
                        res = self.call(callee, argv, body.locals.get(dest[0]) if dest else None)
                    if ret is None: raise PathEnd('diverge', callee)
                    if dest is not None: self.store(frame, dest, res)
                    nxt = ret
                elif k == 'assert':
                    v = self.operand(frame, st[2])
                    c = v.v
                    ok = self.branch(znot(c) if st[1] else c)
                    if not ok: raise PathEnd('panic', f'{st[3][:80]} in {body.name}')
                    nxt = st[4]
                elif k == 'drop': nxt = st[2]
                elif k == 'unreachable': raise PathEnd('unreachable', body.name)
                elif k == 'setdiscr':
                    raise Unsupported('setdiscr')
                else: raise Unsupported('stmt ' + k)
            if nxt is None: raise Unsupported('fallthrough in bb%d of %s' % (bb, body.name))
            bb = nxt

    # ----- driver -----
    def explore(self, entry, on_path, max_paths=100000, deadline=None):
        """entry(interp) -> result ; on_path(interp, outcome)"""
        work = [[]]
        stats = {'paths': 0, 'infeasible': 0, 'unsupported': {}, 'left': 0}
        while work:
            if stats['paths'] >= max_paths or (deadline and time.time() > deadline):
                break
            prefix = work.pop()
            self.reset(prefix)
            try:
                res = entry(self)
                outcome = ('ok', res)
            except PathEnd as e:
                outcome = (e.kind, e.info)
            except Infeasible:
                stats['infeasible'] += 1
                work.extend(self.pending); continue
            except Unsupported as e:
                key = str(e)[:160]
                stats['unsupported'][key] = stats['unsupported'].get(key, 0) + 1
                outcome = ('unsupported', str(e))
            work.extend(self.pending)
            stats['paths'] += 1
            self.tot['steps'] += self.steps
            on_path(self, outcome)
        stats['left'] = len(work)
        return stats

def match_angle(s, i):
    """s[i] == '<': index of the matching '>' (ignoring -> and =>), or -1"""
    depth = 0
    for q in range(i, len(s)):
        c = s[q]
        if c == '<': depth += 1
        elif c == '>' and s[q - 1] not in '-=':
            depth -= 1
            if depth == 0: return q
    return -1

def strip_generic_suffix(name):
    """`path::f::<A, (B, C)>` -> `path::f`"""
    if not name.endswith('>'): return name
    depth = 0
    for q in range(len(name) - 1, -1, -1):
        c = name[q]
        if c == '>' and name[q - 1] not in '-=': depth += 1
        elif c == '<':
            depth -= 1
            if depth == 0:
                return name[:q - 2] if name[q - 2:q] == '::' else name
    return name

class VecSlot:
    """cell-like alias of one slot of a vec model"""
    def __init__(self, vec, i): self.vec = vec; self.i = i
    @property
    def val(self): return self.vec.items[self.i]
    @val.setter
    def val(self, v): self.vec.items[self.i] = v

def decode_rust_str(s):
    """decode the escapes rustc uses when printing str/char constants"""
    out = []; i = 0
    while i < len(s):
        c = s[i]
        if c != '\\': out.append(c); i += 1; continue
        n = s[i + 1]
        if n == 'u':
            j = s.index('}', i)
            out.append(chr(int(s[i + 3:j], 16))); i = j + 1
        elif n == 'x':
            out.append(chr(int(s[i + 2:i + 4], 16))); i += 4
        else:
            out.append({'n': '\n', 't': '\t', 'r': '\r', '0': '\0', '\\': '\\', "'": "'", '"': '"'}[n]); i += 2
    return ''.join(out)
