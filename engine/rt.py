"""Helpers for harnesses: building and reading the crate's runtime values (Span, Rational, Compound, Numeric, Unit)."""
import re, z3
from fractions import Fraction
from mirsym import *
from models.coll import MapV, vec
from models import num as mnum
from models.core import deref

BASE_UNITS = ['KiloGram', 'Candela', 'Meter', 'Second', 'Ampere', 'Kelvin', 'Mole', 'Byte']

def find_fn(I, suffix, contains=None, nargs=None):
    out = []
    for k, bl in I.bodies.items():
        if k == suffix or k.endswith('::' + suffix):
            for b in bl:
                if b.kind != 'fn': continue
                if contains and contains not in k and not any(contains in t for _, t in b.args): continue
                if nargs is not None and len(b.args) != nargs: continue
                out.append(b)
    if len(out) != 1: raise Unsupported(f'find_fn {suffix} ({contains}): {len(out)} candidates')
    return out[0]

def span(a, b): return VStruct('Span', [VInt(a, 'u32'), VInt(b, 'u32')])
def rational(v, nd=None): return VStruct('rational::Rational', [VRat(v, nd)])
def unit_val(I, name):
    if name in BASE_UNITS: return VEnum('unit::Unit', name, [])
    return VEnum('unit::Unit', 'Derived', [I.copyval(I.get_static(name).val)])
def state(power, prefix): return VStruct('compound::State', [VInt(power, 'i32'), VInt(prefix, 'i32')])
def compound(I, entries):
    """entries: [(unit name, power, prefix)], inserted through the map model in the key type's own order"""
    from models.coll import map_find
    m = MapV('unit::Unit')
    for u, p, f in entries:
        uv = unit_val(I, u)
        i, found = map_find(I, m, uv)
        if found:
            # two entries the key type's own Ord calls equal: as Compound::from_iter / BTreeMap::insert do, the later state
            # replaces the earlier one under the earlier key (only a harness error if the SAME unit was listed twice)
            if [e[0] for e in entries].count(u) > 1: raise ValueError('duplicate unit ' + u)
            m.entries[i][1] = Cell(state(p, f)); continue
        m.entries.insert(i, [uv, Cell(state(p, f))])
    return VStruct('compound::Compound', [m])
def numeric(v, unit): return VStruct('numeric::Numeric', [rational(v) if not isinstance(v, VStruct) else v, unit])

def unit_name(I, u):
    u = deref(I, u)
    if u.variant != 'Derived': return u.variant
    did = u.items[0].items[0].v
    return derived_names(I).get(did, f'derived#{did}')
_names = {}
def derived_names(I):
    """id -> static path, for every `static X: Derived` in the MIR"""
    key = id(I.bodies)
    if key not in _names:
        t = {}
        for k, bl in I.bodies.items():
            for b in bl:
                if b.kind == 'static' and b.ret and b.ret.strip().endswith('Derived'):
                    try:
                        v = I.get_static(k).val
                        t[v.items[0].v] = k
                    except (Unsupported, PathEnd): pass
        _names[key] = t
    return _names[key]
def read_compound(I, c):
    c = deref(I, c)
    m = c.items[0]
    return [(unit_name(I, e[0]), e[1].val.items[0].v, e[1].val.items[1].v) for e in m.entries]
def rat_of(I, numeric_or_rational):
    return mnum.rat_arg(I, numeric_or_rational)

def frac_str(q):
    """shortest query spelling of a Fraction: decimal when finite, else (n/d)"""
    q = Fraction(q)
    d = q.denominator
    dd = d
    for p in (2, 5):
        while dd % p == 0: dd //= p
    if dd == 1:
        # finite decimal
        k = 0
        while (10 ** k) % d != 0: k += 1
        n = abs(q.numerator) * (10 ** k) // d
        s = str(n).rjust(k + 1, '0')
        s = s[:-k] + '.' + s[-k:] if k else s
        return ('-' if q < 0 else '') + s
    return f'({q.numerator}/{q.denominator})'

def mval(m, e):
    """python value (int / Fraction) of expression e in model m"""
    if isinstance(e, (int, Fraction)): return e
    v = m.eval(e, model_completion=True)
    if z3.is_int_value(v): return v.as_long()
    if z3.is_rational_value(v): return Fraction(v.numerator_as_long(), v.denominator_as_long())
    if z3.is_algebraic_value(v): return Fraction(v.approx(20).numerator_as_long(), v.approx(20).denominator_as_long())
    if z3.is_true(v): return True
    if z3.is_false(v): return False
    raise ValueError(f'cannot evaluate {e} -> {v}')

def parse_frac(s):
    n, d = s.split('/') if '/' in s else (s, '1')
    return Fraction(int(n), int(d))

def derived_statics(I):
    """all `static X: Derived` names in the MIR (the unit vocabulary, regenerated on every run)"""
    out = []
    for k, bl in I.bodies.items():
        for b in bl:
            if b.kind == 'static' and b.ret and b.ret.strip().endswith('Derived'): out.append(k)
    return sorted(out)

def new_powers(I):
    from models.coll import MapV
    return VStruct('powers::Powers', [MapV('unit::Unit')])
def read_powers(I, p):
    p = deref(I, p)
    return [(unit_name(I, e[0]), e[1].val.v) for e in p.items[0].entries]
def vtable_of(I, static_name):
    d = I.get_static(static_name).val
    return I.read_ref(d.items[1])      # DerivedVtable { powers, format, conversion }

# ---- running the real lexer / parser / evaluator from MIR on a (possibly partly symbolic) source string ----
def parse_root(I, s):
    """s: StrS.  returns Result<Tree>"""
    p = I.call("Parser::<'_>::new", [VRef(Cell(s), [])])
    return I.call("Parser::<'_>::parse_root", [p])
def lex_all(I, s, limit=None):
    lx = Cell(I.call("Lexer::<'_>::new", [VRef(Cell(s), [])]))
    toks = []
    for _ in range(limit or (s.blen() + 2)):
        t = I.call("<Lexer<'_> as Iterator>::next", [VRef(lx, [])])
        if t.variant == 'None': return toks, True
        tok = t.items[0]
        toks.append((tok.items[1].variant, I.concretize(tok.items[0].v, what='token length')))
    return toks, False
