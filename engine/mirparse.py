"""Parser for rustc -Zunpretty=mir text (prototype)."""
import re

class Body:
    def __init__(self, kind, name, header):
        self.kind = kind; self.name = name; self.header = header
        self.args = []      # [(local, type)]
        self.ret = None
        self.locals = {}    # n -> type
        self.blocks = {}    # n -> (stmts, term)
        self.text = None

def split_top(s, sep=','):
    """split on sep at depth 0 of ()[]{}<> (angle aware of -> and =>)"""
    out = []; depth = 0; cur = []; i = 0; n = len(s)
    instr = False
    while i < n:
        c = s[i]
        if instr:
            cur.append(c)
            if c == '\\': cur.append(s[i+1]); i += 1
            elif c == '"': instr = False
        elif c == '"':
            instr = True; cur.append(c)
        elif c in '([{': depth += 1; cur.append(c)
        elif c in ')]}': depth -= 1; cur.append(c)
        elif c == '<': depth += 1; cur.append(c)
        elif c == '>' and i > 0 and s[i-1] in '-=': cur.append(c)
        elif c == '>': depth -= 1; cur.append(c)
        elif c == sep and depth == 0:
            out.append(''.join(cur).strip()); cur = []
        else: cur.append(c)
        i += 1
    t = ''.join(cur).strip()
    if t: out.append(t)
    return out

def find_matching(s, i):
    """s[i] is an opening bracket; return index of matching close (ignores <>)."""
    op = s[i]; cl = {'(': ')', '[': ']', '{': '}'}[op]
    depth = 0; instr = False
    j = i
    while j < len(s):
        c = s[j]
        if instr:
            if c == '\\': j += 1
            elif c == '"': instr = False
        elif c == '"': instr = True
        elif c == op: depth += 1
        elif c == cl:
            depth -= 1
            if depth == 0: return j
        j += 1
    raise ValueError('unbalanced: ' + s[i:i+80])

# ---------------- places / operands -----------------
def parse_place(s):
    """returns (local:int, [proj...]) ; proj: ('deref',), ('field',n), ('downcast',name), ('index',local), ('constindex',n)"""
    s = s.strip()
    if s.startswith('('):
        j = find_matching(s, 0)
        inner = s[1:j]; rest = s[j+1:]
        if inner.startswith('*'):
            base = parse_place(inner[1:])
            pl = (base[0], base[1] + [('deref',)])
        else:
            m = re.match(r'^(.*) as (\w+)$', inner)
            parts = None
            if m and ':' not in strip_parens_tail(inner):
                base = parse_place(m.group(1))
                pl = (base[0], base[1] + [('downcast', m.group(2))])
            else:
                # (P.N: T)
                k = split_field(inner)
                base = parse_place(k[0])
                pl = (base[0], base[1] + [('field', int(k[1]))])
        return apply_suffix(pl, rest)
    m = re.match(r'^_(\d+)(.*)$', s)
    if not m: raise ValueError('bad place ' + s)
    return apply_suffix((int(m.group(1)), []), m.group(2))

def strip_parens_tail(inner):
    # text after the last top-level ')' group start; used to decide "as" vs field form
    # if inner is "P.N: T" there is a ': ' at top level
    depth = 0
    out = []
    for c in inner:
        if c in '([{<': depth += 1
        elif c in ')]}>': depth -= 1
        elif depth == 0: out.append(c)
    return ''.join(out)

def split_field(inner):
    # inner like "_3.0: T" or "(*_2).1: T" or "(_3 as Some).0: T"
    depth = 0
    for i, c in enumerate(inner):
        if c in '([{': depth += 1
        elif c in ')]}': depth -= 1
        elif c == ':' and depth == 0 and inner[i+1] == ' ':
            left = inner[:i]
            k = left.rfind('.')
            return (left[:k], left[k+1:], inner[i+2:])
    raise ValueError('bad field ' + inner)

def apply_suffix(pl, rest):
    rest = rest.strip()
    while rest:
        if rest.startswith('['):
            j = find_matching(rest, 0)
            idx = rest[1:j]
            m = re.match(r'^_(\d+)$', idx)
            if m: pl = (pl[0], pl[1] + [('index', int(m.group(1)))])
            else:
                m = re.match(r'^(\d+) of (\d+)$', idx)
                if m: pl = (pl[0], pl[1] + [('constindex', int(m.group(1)))])
                else: raise ValueError('bad index ' + rest)
            rest = rest[j+1:].strip()
        else:
            raise ValueError('bad place suffix ' + rest)
    return pl

def parse_operand(s):
    s = s.strip()
    if s.startswith('copy '): return ('copy', parse_place(s[5:]))
    if s.startswith('move '): return ('move', parse_place(s[5:]))
    if s.startswith('no_retag '): return parse_operand(s[9:])
    if s.startswith('const '): return ('const', s[6:].strip())
    if re.match(r'^[A-Za-z_][\w:<>, ]*$', s): return ('const', s)      # a bare fn item / tuple-variant constructor passed as a value
    raise ValueError('bad operand ' + s)

BINOPS = {'Add','Sub','Mul','Div','Rem','BitXor','BitAnd','BitOr','Shl','Shr','Eq','Lt','Le','Ne','Ge','Gt','Offset','Cmp',
          'AddWithOverflow','SubWithOverflow','MulWithOverflow','AddUnchecked','SubUnchecked','MulUnchecked','ShlUnchecked','ShrUnchecked'}
UNOPS = {'Not','Neg','PtrMetadata'}

def parse_rvalue(s):
    s = s.strip()
    if s.startswith('no_retag '): s = s[9:]
    if 'ReifyFnPointer' in s and not s.startswith(('copy ', 'move ', 'const ')):
        m = re.match(r'^(.+?) as (?:for<[^>]*> )?(?:unsafe )?fn\(', s)
        if m: return ('fnptr', m.group(1))
    if s.startswith(('copy (', 'move (')):
        # operand whose place is parenthesised (may contain blanks inside type annotations): find its extent first
        j = find_matching(s, 5)
        k = j + 1
        while k < len(s) and s[k] == '[':
            k = find_matching(s, k) + 1
        rest = s[k:]
        mm = re.match(r'^ as (.+) \((\w+(?:\(.*\))?(?:, \w+)?)\)$', rest)
        if mm: return ('cast', parse_operand(s[:k]), mm.group(1), mm.group(2))
        if not rest.strip(): return ('use', parse_operand(s[:k]))
    if s.startswith(('copy ', 'move ', 'const ')):
        # maybe a cast:  OP as T (Kind)
        m = re.match(r'^((?:copy|move) \S+|const .+?) as (.+) \((\w+(?:\(.*\))?(?:, \w+)?)\)$', s)
        if m and balanced(m.group(1)):
            return ('cast', parse_operand(m.group(1)), m.group(2), m.group(3))
        return ('use', parse_operand(s))
    if s.startswith('&raw '):
        return ('ref', parse_place(s.split(' ', 2)[2]), 'raw')
    if s.startswith('&mut '): return ('ref', parse_place(s[5:]), 'mut')
    if s.startswith('&'):
        t = s[1:].strip()
        if t.startswith('fake shallow '): t = t[13:]
        return ('ref', parse_place(t), 'shared')
    m = re.match(r'^(\w+)\((.*)\)$', s)
    if m and m.group(1) in BINOPS:
        a, b = split_top(m.group(2))
        return ('binop', m.group(1), parse_operand(a), parse_operand(b))
    if m and m.group(1) in UNOPS:
        return ('unop', m.group(1), parse_operand(m.group(2)))
    if m and m.group(1) == 'discriminant':
        return ('discriminant', parse_place(m.group(2)))
    if m and m.group(1) == 'Len':
        return ('len', parse_place(m.group(2)))
    if s.startswith('{closure@') or s.startswith('{coroutine@'):
        j = find_matching(s, 0)
        head = s[:j+1]
        rest = s[j+1:].strip()
        caps = []
        if rest.startswith('{'):
            k = find_matching(rest, 0)
            for f in split_top(rest[1:k]):
                name, val = f.split(': ', 1)
                caps.append((name.strip(), parse_operand(val)))
        return ('closure', head, caps)
    if s.startswith('('):
        j = find_matching(s, 0)
        if j == len(s) - 1:
            items = split_top(s[1:j])
            return ('tuple', [parse_operand(x) for x in items])
    if s.startswith('['):
        j = find_matching(s, 0)
        inner = s[1:j]
        parts = split_top(inner, ';')
        if len(parts) == 2:
            return ('repeat', parse_operand(parts[0]), parts[1])
        return ('array', [parse_operand(x) for x in split_top(inner)])
    # aggregates: Path { f: op, .. } | Path(op, ..) | Path
    if s.endswith('}'):
        i = s.rfind(' {')
        # find the brace that matches the final one
        k = len(s) - 1
        depth = 0
        for q in range(k, -1, -1):
            if s[q] == '}': depth += 1
            elif s[q] == '{':
                depth -= 1
                if depth == 0: break
        path = s[:q].strip()
        fields = []
        for f in split_top(s[q+1:k]):
            name, val = f.split(': ', 1)
            fields.append((name.strip(), parse_operand(val)))
        return ('adt_struct', path, fields)
    if s.endswith(')'):
        # find opening paren matching the last
        depth = 0
        for q in range(len(s) - 1, -1, -1):
            if s[q] == ')': depth += 1
            elif s[q] == '(':
                depth -= 1
                if depth == 0: break
        path = s[:q].strip()
        return ('adt_tuple', path, [parse_operand(x) for x in split_top(s[q+1:-1])])
    return ('adt_unit', s)

def balanced(s):
    d = 0
    for c in s:
        if c in '([{': d += 1
        elif c in ')]}': d -= 1
    return d == 0

def parse_targets(s):
    # "[return: bb1, unwind continue]" or "[0: bb1, otherwise: bb2]" or "[success: bb3, unwind: bb4]"
    out = {}
    for part in split_top(s.strip()[1:-1]):
        if part.startswith('unwind'): out['unwind'] = part; continue
        k, v = part.split(': ')
        out[k.strip()] = int(v.strip()[2:])
    return out

def parse_stmt(l):
    if l.startswith(('StorageLive', 'StorageDead', 'nop', 'FakeRead', 'PlaceMention', 'Retag', 'AscribeUserType', 'Coverage', 'ConstEvalCounter', 'Deinit', 'BackwardIncompatibleDropHint')):
        return ('nop',)
    if l == 'return;': return ('return',)
    if l == 'unreachable;': return ('unreachable',)
    if l.startswith('resume'): return ('resume',)
    if l.startswith('goto -> '): return ('goto', int(l[8:-1].strip()[2:]))
    if l.startswith('switchInt('):
        j = find_matching(l, 9)
        op = parse_operand(l[10:j])
        t = l[j+1:].strip()
        assert t.startswith('-> ')
        tg = parse_targets(t[3:-1])
        return ('switch', op, tg)
    if l.startswith('drop('):
        j = find_matching(l, 4)
        tg = parse_targets(l[j+1:].strip()[3:-1])
        return ('drop', parse_place(l[5:j]), tg['return'])
    if l.startswith('assert('):
        j = find_matching(l, 6)
        inner = split_top(l[7:j])
        cond = inner[0]; neg = False
        if cond.startswith('!'): neg = True; cond = cond[1:]
        tg = parse_targets(l[j+1:].strip()[3:-1])
        return ('assert', neg, parse_operand(cond), inner[1], tg['success'])
    m = re.match(r'^discriminant\((.*)\) = (\d+);$', l)
    if m: return ('setdiscr', parse_place(m.group(1)), int(m.group(2)))
    # assignment or call
    # find top-level " = "
    depth = 0; pos = -1
    for i, c in enumerate(l):
        if c in '([{': depth += 1
        elif c in ')]}': depth -= 1
        elif depth == 0 and l.startswith(' = ', i): pos = i; break
    if pos < 0:
        # diverging call:  callee(args) -> unwind ...
        m = re.match(r'^(.*)\) -> (.*);$', l)
        if m:
            return ('call', None, *parse_call(m.group(1) + ')'), None)
        raise ValueError('unparsed stmt: ' + l)
    lhs = l[:pos]; rhs = l[pos+3:]
    assert rhs.endswith(';'), l
    rhs = rhs[:-1]
    # call?  "callee(args) -> [return: bbN, unwind ...]"
    m = re.search(r'\) -> (\[.*\]|unwind .*|bb\d+)$', rhs)
    if m:
        callpart = rhs[:m.start() + 1]
        tg = parse_targets(m.group(1)) if m.group(1).startswith('[') else {}
        callee, args = parse_call(callpart)
        return ('call', parse_place(lhs), callee, args, tg.get('return'))
    return ('assign', parse_place(lhs), parse_rvalue(rhs))

def parse_call(s):
    # s = "callee(args)" ; callee may contain parens/generics. find the '(' matching the last ')'
    depth = 0
    for q in range(len(s) - 1, -1, -1):
        if s[q] == ')': depth += 1
        elif s[q] == '(':
            depth -= 1
            if depth == 0: break
    callee = s[:q].strip()
    args = [parse_operand(x) for x in split_top(s[q+1:-1])]
    return callee, args

HEAD = re.compile(r'^(fn|static|const|static mut) (.*)$')

def parse_mir(text):
    bodies = {}
    allocs = {}
    order = []
    lines = text.split('\n')
    i = 0; n = len(lines)
    while i < n:
        l = lines[i]
        m = re.match(r'^(alloc\d+) \(static: ([^,)]+)(?:, size: \d+, align: \d+)?\)(?: \{)?$', l)
        if m: allocs[m.group(1)] = ('static', m.group(2)); i += 1; continue
        m = re.match(r'^(alloc\d+) \(size: (\d+), align: \d+\) \{', l)
        if m:
            # hex dump; collect bytes
            j = i + 1; bs = []
            ok = True
            while j < n and not lines[j].startswith('}'):
                row = lines[j].split('│')
                hexpart = row[1] if len(row) >= 3 else row[0]
                for tok in hexpart.split():
                    if re.fullmatch(r'[0-9a-f]{2}', tok): bs.append(int(tok, 16))
                    elif tok.startswith('0x'): pass
                    else: ok = False
                j += 1
            allocs[m.group(1)] = ('bytes', bytes(bs) if ok else None)
            i = j + 1; continue
        m = re.match(r'^const ((?:<impl at [^>]*>|::|[^:])+): (.*?) = const (.*);$', l)
        if m:
            b = Body('const', m.group(1), l); b.ret = m.group(2); b.simple = m.group(3)
            bodies.setdefault(b.name, []).append(b); i += 1; continue
        m = HEAD.match(l)
        if m and l.rstrip().endswith('{'):
            kind = m.group(1); rest = m.group(2)
            j = i + 1
            while j < n and lines[j] != '}': j += 1
            body = parse_body(kind, rest, lines[i+1:j])
            bodies.setdefault(body.name, []).append(body)
            order.append(body)
            i = j + 1; continue
        i += 1
    return bodies, allocs

def parse_body(kind, rest, lines):
    rest = rest.rstrip()
    assert rest.endswith('{')
    rest = rest[:-1].rstrip()
    b = None
    if kind == 'fn':
        # name(args) -> ret
        # find the '(' that starts the arg list: first '(' at depth 0 w.r.t <> such that preceding is the name
        depth = 0; q = None
        for i, c in enumerate(rest):
            if c == '<': depth += 1
            elif c == '>' and rest[i-1] not in '-=': depth -= 1
            elif c == '(' and depth == 0:
                q = i; break
        j = find_matching(rest, q)
        name = rest[:q]
        b = Body('fn', name, rest)
        for a in split_top(rest[q+1:j]):
            mm = re.match(r'^_(\d+): (.*)$', a)
            b.args.append((int(mm.group(1)), mm.group(2)))
            b.locals[int(mm.group(1))] = mm.group(2)
        r = rest[j+1:].strip()
        b.ret = r[3:].strip() if r.startswith('->') else '()'
    else:
        # static NAME: T =    /  const NAME: T =
        assert rest.endswith(' ='), rest
        body_ = rest[:-2]
        depth = 0; pos = -1
        for i, c in enumerate(body_):
            if c in '<([': depth += 1
            elif c in '>)]' and not (c == '>' and body_[i-1] in '-='): depth -= 1
            elif c == ':' and depth == 0 and body_[i+1:i+2] == ' ' and body_[i-1] != ':':
                pos = i; break
        b = Body(kind, body_[:pos], rest)
        b.ret = body_[pos+2:]
    cur = None; stmts = None
    for raw in lines:
        l = raw.strip()
        if not l: continue
        m = re.match(r'^let (?:mut )?_(\d+): (.*);$', l)
        if m and cur is None:
            b.locals[int(m.group(1))] = m.group(2); continue
        m = re.match(r'^bb(\d+)(?: \(cleanup\))?: \{$', l)
        if m:
            cur = int(m.group(1)); stmts = []; continue
        if cur is None: continue
        if l == '}':
            if stmts is not None:
                b.blocks[cur] = stmts
            stmts = None; continue
        if stmts is not None:
            stmts.append(l)
    return b
