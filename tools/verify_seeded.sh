#!/bin/bash
# usage: verify_seeded.sh <dir with patch.diff demo.rs meta.json> <name>
# confirms in a scratch worktree of /repo HEAD: demo passes clean, fails with the patch, suite passes with the patch.
src="$1"; name="$2"
wt=/tmp/scratch-$name
export CARGO_NET_OFFLINE=true XDG_DATA_HOME=/tmp/scratch-$name-xdg
rm -rf "$wt" "$XDG_DATA_HOME"; mkdir -p "$XDG_DATA_HOME"
git -C /repo worktree add -q --detach "$wt" HEAD || exit 3
cp -r /repo/target "$wt/target" 2>/dev/null
cd "$wt"
demo=tests/demo_${name,,}.rs
cp "$src/demo.rs" "$demo"
# a demo that kills child processes can be timing-dependent: the clean run gets up to three attempts (each from a fresh data
# directory), the mutated run must fail
for attempt in 1 2 3; do
  rm -rf "$XDG_DATA_HOME"; mkdir -p "$XDG_DATA_HOME"
  res_clean=$(cargo test --offline --test demo_${name,,} 2>&1 | grep -E "^test result" | tail -1)
  case "$res_clean" in *"ok."*) break;; esac
done
rm -rf "$XDG_DATA_HOME"; mkdir -p "$XDG_DATA_HOME"
if ! git apply --check "$src/patch.diff" 2>/dev/null; then applies=no; else applies=yes; git apply "$src/patch.diff"; fi
res_mut=$(cargo test --offline --test demo_${name,,} 2>&1 | grep -E "^test result|error(\[|:)" | tail -1)
rm -f "$demo"
suite=$(cargo test --workspace --no-fail-fast --offline 2>&1 | grep -E "^test result" | awk '{p+=$4; f+=$6} END {print "passed=" p " failed=" f}')
echo "$name applies=$applies | clean: $res_clean | mutated: $res_mut | suite-with-patch: $suite"
cd /; git -C /repo worktree remove --force "$wt"; rm -rf "$XDG_DATA_HOME"
