#!/usr/bin/env python3
"""usage: recheck_seeded.py <name> <check id>...  — re-runs quick checks against an adopted seeded change and updates its meta.json"""
import sys, os, subprocess, json, re
name, checks = sys.argv[1], sys.argv[2:]
ROOT = os.path.dirname(os.path.dirname(os.path.abspath(__file__)))
dst = os.path.join(ROOT, 'seeded', name)
meta = json.load(open(dst + '/meta.json'))
t = subprocess.run([ROOT + '/tools/try_seeded.sh', dst + '/patch.diff'] + checks, stdout=subprocess.PIPE, stderr=subprocess.STDOUT).stdout.decode()
print(t)
for l in t.split('\n'):
    mm = re.match(r'== (\w+) exit=(\d+) :: (\d+) violations :: (.*)', l)
    if mm: meta.setdefault('checks_run', {})[mm.group(1)] = {'exit': int(mm.group(2)), 'violations': int(mm.group(3)), 'first': mm.group(4).strip()[:220]}
meta['rechecked_on'] = os.environ.get('VERIF_REPO', '/repo') + ' @ ' + subprocess.run(['git', '-C', os.environ.get('VERIF_REPO', '/repo'), 'rev-parse', '--short', 'HEAD'], stdout=subprocess.PIPE).stdout.decode().strip()
meta['detected_by'] = sorted(k for k, r in meta['checks_run'].items() if r['exit'] == 1)
json.dump(meta, open(dst + '/meta.json', 'w'), indent=1, ensure_ascii=False)
print('RECHECKED', name, 'detected_by', meta['detected_by'])
