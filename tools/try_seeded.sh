#!/bin/bash
# usage: try_seeded.sh <patch.diff> <check id>...   — applies the patch to /repo (or to the worktree of /repo named by
# VERIF_REPO, together with VERIF_CACHE), runs the quick checks, reverts.
patch="$1"; shift
repo="${VERIF_REPO:-/repo}"
cd "$repo" || exit 9
if [ -n "$(git status --porcelain --untracked-files=no)" ]; then echo "$repo not clean"; exit 9; fi
if ! git apply --check "$patch" 2>/dev/null; then
  if ! git apply --3way "$patch" >/dev/null 2>&1 || grep -rq '^<<<<<<< ' src 2>/dev/null; then git reset -q --hard HEAD; echo "PATCH DOES NOT APPLY (conflict): $patch"; exit 8; fi
else git apply "$patch"; fi
cd /verif
for id in "$@"; do
  out=$(./check $id --tier ${TIER:-quick} 2>&1); rc=$?
  echo "== $id exit=$rc :: $(echo "$out" | grep -c '^VIOLATION') violations :: $(echo "$out" | grep -m1 'role=' | cut -c1-220)"
  echo "$out" | grep "INCONCLUSIVE" | head -3 | cut -c1-250
done
git -C "$repo" reset -q --hard HEAD ; git -C "$repo" status --porcelain --untracked-files=no | head -3
