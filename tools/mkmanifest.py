#!/usr/bin/env python3
"""Regenerates MANIFEST.json from the table below (kept in one place so that it is always valid)."""
import json, os
ROOT = os.path.dirname(os.path.dirname(os.path.abspath(__file__)))
CLAIMED = {
 'C05': dict(
    text='Bounded symbolic model checking of the real code: generated::unit::parse with both logos-generated DFAs (every gotoN function and jump table executed from MIR; only the logos runtime is a model), UnitParser::next, and <Compound as FromStr>::from_str (Parser::parse_unit, grammar::unit, eval::unit, Compound::update) are executed on words whose characters are solver variables: all words of <= 3 (thorough 4) word characters, 1..2 (thorough 3) symbolic letters in front of every documented name, every documented name alone; the solver walks the DFA and every accepted word must be read as one of the valid [SI prefix] + unit name readings computed from the documented vocabulary (tools/gen/data.toml), standard symbols must denote the standard unit, every unit static must declare the standard scale (spec/units.py from the SI brochure, yard-pound agreement, US customary measure); unit expressions w1 o1 w2 o2 w3 with symbolic separators and symbolic exponent digits must yield the reference compound. Counterexamples are replayed on the native dev and release builds; deviations that the existing tests pin and the logos back-tracking defect are listed known findings.',
    note='Trusted: MIR dump, rustc macro expansion (jump-table enum layouts), mirsym + logos runtime model, spec/units.py, spec/unitnames.py, tools/gen/data.toml as the documentation of spellings, z3. Outside: longer arbitrary words, expressions of more than 3 words, the characters mu / Omega / - (the query lexer never passes them to the unit parser).',
    design='§5 C05', technique='symbolic execution of rustc MIR incl. the generated DFA over symbolic characters (z3 feasibility of jump-table classes, all-SAT word enumeration), replay on native builds'),
 'C06': dict(
    text='Bounded symbolic model checking of the real code: Lexer::next, Parser (nth/count_skip/skip/eat/bump/close_at/checkpoint), grammar::{root, operation, operand, op, value, unit, call_arguments} over the syntree builder model, the Query iterator and eval::eval are executed from MIR on query templates whose operator characters and blank characters are solver variables and whose literal values are unbounded symbolic rationals: arithmetic templates of 2..5 operands with every parenthesisation under many blank layouts (none where the property permits it, doubled, tabs, leading/trailing), cast templates (+ - tighter than `to`, chained casts), call templates with blanks around parentheses and commas. On every path the real syntax tree, folded left to right as the evaluator does, must equal the reference parse (^ > * / > + - > to, left associative) and z3 proves the value equal to the reference evaluation for all literal values; exactly one result per query. Counterexamples are rendered as text and replayed (query and tree) on the native dev and release builds.',
    note='Trusted: MIR dump, mirsym + models (syntree builder/tree model, str/VecDeque, num as Real, logos runtime for unit words), spec/exprs.py, z3. Outside: + and - without surrounding blanks (the lexer reads the sign into the literal; not promised by the property), deeper expressions, brace escapes.',
    design='§5 C06', technique='symbolic execution of rustc MIR with symbolic operator and blank characters + z3 (tree comparison per path, nonlinear real arithmetic for values), replay on native builds'),
 'C08': dict(
    text='Bounded symbolic model checking of the real code: <rational::display::Display as fmt::Display>::fmt with format_big, format_whole, emit and digits executed from MIR on +-(Q*d + R)/d with the integer part Q (< 10^12, thorough 10^24) and the remainder R solver variables and the denominator, limit and exponent limit concrete per job; the printed pieces are read back (sign, digits, point, mark, exponent) and z3 proves: every digit in 0..9, printed value <= |x| < printed value + one unit in the last printed place, minus sign iff negative, continuation mark iff something non-zero was cut off. Counterexamples are replayed through Rational::display on the native dev and release builds.',
    note='Trusted: MIR dump, mirsym + models (fmt::Formatter as piece list, BigInt::to_string as digit vector, division by a concrete denominator as quotient/remainder witnesses, iterator adapters), z3 linear integer arithmetic. Outside: denominators outside the grid, integer parts beyond the bound, show_continuation = false.',
    design='§5 C08', technique='symbolic execution of rustc MIR + z3 linear integer/real arithmetic over symbolic integer part and remainder, replay on native builds'),
 'C12': dict(
    text='Bounded symbolic model checking of the real code: (A) one inductive step of Lexer::next from an arbitrary lexer state (string of <= 5, thorough 6, characters, each symbolic ASCII or a listed multi-byte character, arbitrary prefix character, escape flag symbolic): None exactly at the end, otherwise a token of >= 1 byte ending inside the input on a character boundary with pos advanced by its length, and no dependence on anything before pos; by induction over suffixes every string within the bound is tiled by its tokens. (B) whole streams of <= 3 characters lexed and parsed: the tree leaves are exactly the tokens. (C) Parser + grammar over the syntree builder model with the lexer replaced by a stub whose token KINDS are solver variables (<= 4, thorough 5 tokens, constrained to sequences the lexer can emit): a tree is always built, every token is requested and forwarded exactly once, leaves = tokens in order with contiguous spans. Counterexamples are realised as text and replayed (lex + tree) on the native dev and release builds.',
    note='Trusted: MIR dump, mirsym + models (str/char, syntree builder transliteration), z3. Outside: tokens longer than the bound (only the length of ONE token is bounded by the induction), soups longer than the bound.',
    design='§5 C12', technique='symbolic execution of rustc MIR (dev+release): inductive lexer step over symbolic characters, parser over symbolic token kinds (all-SAT), replay on native builds'),
 'C01': dict(
    text='Bounded symbolic model checking of the real code: the whole pipeline (Lexer::next, Parser and grammar::{root, operation, value}, the Query iterator, eval::eval with its OPERATION/NUMBER/PERCENTAGE arms, eval::{add,sub,mul,div,pow}, the Rational operators) is executed from the dev and release MIR on query templates L0 o1 L1 o2 L2 .. with every placement of parentheses and optional percent signs; every operator character is a solver variable over + - * / ^ (the lexer\'s branches on it are decided by feasibility queries) and every literal\'s value is an unbounded symbolic rational (the literal reader is cut at the literal\'s span; C07 proves that cut function exact); on every path z3 proves the result equal to an independent exact evaluator applied to the reference parse, DivideByZero reported exactly when the reference divides by zero (including zero to a negative power) and never a number in that case. Counterexamples are rendered as query text and replayed on the native dev and release builds.',
    note='Trusted: MIR dump, mirsym + models (num as Int/Real, syntree builder/tree model, str/Vec/VecDeque), spec/exprs.py, the rational-function normal form that turns value equalities into expanded polynomial disequalities before z3 decides them, z3 (nonlinear real arithmetic). Outside: more than 4 (thorough 5) operands, exponents beyond [-3,3], non-integer exponents (C04), digits of literals (C07).',
    design='§5 C01', technique='symbolic execution of rustc MIR (dev+release) with symbolic operator characters + z3 nonlinear real arithmetic, replay on native builds'),
 'C07': dict(
    text='Bounded symbolic model checking of the real code: <Rational as FromStr>::from_str and Lexer::next are executed from the MIR of /repo\'s current tree over ALL ASCII strings up to the stated length (bytes are solver variables, byte classes split by feasibility queries); every accepted grammar literal\'s value is proved (z3 unsat) equal to an independent literal semantics with an unbounded exponent; solver models are replayed against the native dev and release builds before a violation is reported.',
    note='Trusted: rustc\'s MIR dump, the mirsym executor and its library models (num BigInt/Ratio as Int/Real, str/iterator/Option plumbing), z3. Outside the claim: literals longer than the bound, num-bigint itself.',
    design='§5 C07', technique='symbolic execution of rustc MIR + z3 (bounded, per-path obligations), replay on native build'),
 'C10': dict(
    text='Bounded symbolic model checking of the real code: eval::builtin name lookup and builtin::{floor,ceil,round} (with Rational::{floor,ceil,round}) are executed from BOTH the dev and the release MIR of /repo on an unbounded symbolic rational (integer part unbounded, fraction symbolic), every digits argument in the bound as its own job, every argument count 0..3; the result is proved equal (z3 unsat of the negation) to the mathematical definition stated without floor functions; panics (debug assertions) are reachable-panic queries; models are replayed on the native dev and release builds.',
    note='Trusted: MIR dump, mirsym + models (num Ratio::{floor,ceil,round,trunc} as exact integer-part arithmetic on a k+f decomposition, Vec/Option plumbing), z3. Outside: |digits| beyond the bound, sin/cos.',
    design='§5 C10', technique='symbolic execution of rustc MIR (dev+release) + z3 linear real/integer arithmetic, replay on native builds'),
 'C02': dict(
    text='Bounded symbolic model checking of the real code: eval::add, eval::sub and Compound::factor (with base_units, Unit::powers, every DerivedVtable.powers closure reached through the real statics, Powers::insert/get/len/iter) are executed from MIR on two compounds whose units are concrete per job (all 1-vs-1 pairs of the whole vocabulary found in the MIR, 2-vs-1 and 2-vs-2 over a 14-unit basis) and whose powers are solver variables in [-3,3]; on every path z3 proves accepted <=> equal base dimensions (reference dimension table written from the SI brochure) as a formula over the powers, so cancelling spellings are found by the solver; per unit Unit::powers(u,p) = p*dim_ref(u) for symbolic p; unit-less operands adopt the other unit in both orders. Counterexamples are replayed as queries on the native dev and release builds.',
    note='Trusted: MIR dump, mirsym + models (BTreeMap as association list ordered by the crate\'s own Ord for Unit run from MIR; num as Int/Real), spec/units.py, z3. Outside: >2 entries per side, offset units (C09), prefixes (C03).',
    design='§5 C02', technique='symbolic execution of rustc MIR + z3 linear integer arithmetic over symbolic unit powers, replay on native builds'),
 'C03': dict(
    text='Bounded symbolic model checking of the real code: Compound::factor (apply_conversion, Rational::pow, prefix scaling, base_units) executed from MIR on an unbounded symbolic magnitude; units concrete per job (every unit to/from its base-SI expansion, pairs inside every dimension class, products of up to 3 (thorough 4) basis units, full 21-prefix sweeps), powers and prefixes solver variables; on every path z3 proves result == x*F(source)/F(target) with F the multiplicative extension of the units\' own declared scales and exact powers of ten, of which round trip, via-intermediate, linearity, prefix = power of ten and the power/product rules are corollaries; two- and three-step chains are also executed directly. Solver models are replayed as queries on the dev and release builds.',
    note='Trusted: MIR dump, mirsym + models (num as Int/Real, BTreeMap association list), z3. Outside: >4 factors, offset scales (C09), that declared scales are the standard ones (C05).',
    design='§5 C03', technique='symbolic execution of rustc MIR + z3 (linear real arithmetic in the magnitude, all-SAT forking over prefix*power), replay on native builds'),
 'C04': dict(
    text='Bounded symbolic model checking of the real code: eval::mul, eval::div (Compound::mul, reconstruct, bases_match, inner_match, Compound::new) and eval::pow executed from the dev and release MIR on two quantities with unbounded symbolic magnitudes, concrete units per job and symbolic powers; for whatever units reconstruct chooses z3 proves v*F(R) == SI product/quotient, dim(R) == dim(A) +/- dim(B) as a formula over the powers, no zero-power entry, DivideByZero exactly for a zero divisor; for powers value x^n, SI value (x*F(U))^n, dimension n*dim(U), zero power dimensionless, 0^negative an error, non-integer / unit-carrying exponents refused. Models replayed as queries on both builds.',
    note='Trusted: MIR dump, mirsym + models, z3 (nonlinear real arithmetic for products of magnitudes), spec/units.py for dimensions. Outside: >2 entries per operand, offset units, |exponent| > 4.',
    design='§5 C04', technique='symbolic execution of rustc MIR (dev+release) + z3 nonlinear real / linear integer arithmetic, replay on native builds'),
 'C09': dict(
    text='Bounded symbolic model checking of the real code: Compound::factor with the real temperature statics (Offset conversion, Fahrenheit closures) executed from MIR on an unbounded symbolic magnitude: all ordered pairs of K/degC/degF (prefixes symbolic) proved equal to K = C + 273.15, C = (F-32)*5/9; all chains of length <= 4 executed and proved equal to the direct conversion and exactly invertible; a scale with power -3..3 other than one, or multiplied with one or two companion units with symbolic powers, is proved to be refused or converted as a pure interval (never adding the zero point). Models replayed as queries on both builds.',
    note='Trusted: MIR dump, mirsym + models, z3, spec/units.py temperature constants. Outside: companions beyond the listed five, temperature addition.',
    design='§5 C09', technique='symbolic execution of rustc MIR + z3 linear real arithmetic, replay on native builds'),
}
NOT_YET = {}
NA = {
 'C14': 'ranges over interleavings of tantivy\'s indexing threads and segment merge order; the deciding code is tantivy (threads, mmap, float BM25), outside anything a MIR/Kani encoding of /repo can reach; a hand model would decide the model, not the code',
 'C16': 'top-hit retrieval depends on n-gram tokenisation and floating-point BM25 scores over the concrete 878-document corpus inside tantivy: no symbolic quantity to quantify over and no encodable kernel in /repo',
}
def main():
    props = [json.loads(l) for l in open(os.path.join(ROOT, 'properties.jsonl'))]
    checks = []
    for p in props:
        pid = p['id']
        if pid not in CLAIMED: continue
        c = CLAIMED[pid]
        checks.append({
            'property_id': pid,
            'quick_cmd': f'./check {pid} --tier quick',
            'thorough_cmd': f'./check {pid} --tier thorough',
            'evidence_file': f'evidence/{pid}.json',
            'replay_cmd_template': f'./check {pid} --replay {{path}}',
            'engine': c.get('engine', 'mirsym'),
            'level_claimed': {'category': 'model_checking', 'text': c['text'], 'design_ref': c['design']},
            'level_note': c['note'],
            'technique': c['technique'],
        })
    na = []
    for p in props:
        pid = p['id']
        if pid in CLAIMED: continue
        reason = NA.get(pid) or NOT_YET.get(pid) or 'check not built yet in this revision (planned, see DESIGN.md §5); not claimed until its check exists'
        na.append({'property_id': pid, 'reason': reason})
    man = {
        'version': 1,
        'setup_cmd': './setup.sh',
        'hooks': {'guard': 'anything_verif', 'enable': 'RUSTFLAGS="--cfg anything_verif" (set by engine/replay_client.py when it builds /verif/replay against /repo)',
                  'baseline_off_cmd': 'cd /repo && cargo test --workspace --no-fail-fast --offline', 'source_commits': HOOK_COMMITS, 'add_only': True},
        'engines': [
            {'name': 'mirsym', 'path': 'engine/', 'serves_properties': sorted(k for k, v in CLAIMED.items() if 'mirsym' in v.get('engine', 'mirsym')),
             'kind_free_text': 'symbolic executor over rustc MIR text (regenerated from /repo on every run) with z3; path forking by re-execution; BigInt->Int, BigRational->Real'},
            {'name': 'kani', 'path': 'kani/', 'serves_properties': sorted(k for k, v in CLAIMED.items() if 'kani' in v.get('engine', '')),
             'kind_free_text': 'Kani 0.68 / CBMC harnesses over a symlink mirror of /repo/src (machine-integer kernels only)'},
        ],
        'checks': checks,
        'not_applicable': na,
        'notes': 'exit 0 = held within stated bounds; 1 = replay-confirmed violation (VIOLATION line); 2 = inconclusive (unsupported construct, solver unknown, model mismatch, build failure). Known findings: known_findings.json.',
    }
    json.dump(man, open(os.path.join(ROOT, 'MANIFEST.json'), 'w'), indent=1)
HOOK_COMMITS = ['fff8c40']
if __name__ == '__main__':
    main()
