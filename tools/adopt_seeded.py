#!/usr/bin/env python3
"""usage: adopt_seeded.py <srcdir> <name> <property> <check id>...
Confirms a sub-agent's change in a scratch worktree (demo passes clean / fails mutated / suite passes with the patch),
runs the given quick checks against it, and records it as /verif/seeded/<name>/ {patch.diff, demo.rs, meta.json}."""
import sys, os, subprocess, json, shutil, re
src, name, prop, checks = sys.argv[1], sys.argv[2], sys.argv[3], sys.argv[4:]
ROOT = os.path.dirname(os.path.dirname(os.path.abspath(__file__)))
v = subprocess.run([ROOT + '/tools/verify_seeded.sh', src, name], stdout=subprocess.PIPE, stderr=subprocess.STDOUT).stdout.decode()
line = [l for l in v.split('\n') if l.startswith(name + ' applies=')]
print(line[-1] if line else v[-600:])
m = re.search(r'applies=(\w+) \| clean: (.*?) \| mutated: (.*?) \| suite-with-patch: passed=(\d+) failed=(\d+)', line[-1] if line else '')
ok = bool(m) and m.group(1) == 'yes' and ' 0 failed' in m.group(2) and 'ok.' in m.group(2) and ('FAILED' in m.group(3) or 'error' in m.group(3)) and m.group(5) == '0' and int(m.group(4)) >= 58
results = {}
if ok:
    t = subprocess.run([ROOT + '/tools/try_seeded.sh', src + '/patch.diff'] + checks, stdout=subprocess.PIPE, stderr=subprocess.STDOUT).stdout.decode()
    print(t)
    for l in t.split('\n'):
        mm = re.match(r'== (\w+) exit=(\d+) :: (\d+) violations :: (.*)', l)
        if mm: results[mm.group(1)] = {'exit': int(mm.group(2)), 'violations': int(mm.group(3)), 'first': mm.group(4).strip()[:220]}
dst = os.path.join(ROOT, 'seeded', name)
if ok:
    os.makedirs(dst, exist_ok=True)
    shutil.copy(src + '/patch.diff', dst + '/patch.diff'); shutil.copy(src + '/demo.rs', dst + '/demo.rs')
    notes = open(src + '/notes.md').read() if os.path.exists(src + '/notes.md') else ''
    json.dump({'name': name, 'breaks_property': prop, 'needs_to_manifest': notes, 'confirmed': {'demo_on_clean_tree': m.group(2), 'demo_with_patch': m.group(3), 'suite_with_patch': f'passed={m.group(4)} failed={m.group(5)}',
               'how': 'tools/verify_seeded.sh in a scratch worktree of /repo HEAD (removed afterwards)'},
               'checks_run': results, 'detected_by': sorted(k for k, r in results.items() if r['exit'] == 1)}, open(dst + '/meta.json', 'w'), indent=1, ensure_ascii=False)
    print('ADOPTED', name, 'detected_by', sorted(k for k, r in results.items() if r['exit'] == 1))
else:
    print('REJECTED', name)
