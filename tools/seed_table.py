#!/usr/bin/env python3
"""Regenerates the table of seeded changes in DESIGN.md (between the SEEDED-TABLE markers) from seeded/*/meta.json."""
import json, glob, os, re
ROOT = os.path.dirname(os.path.dirname(os.path.abspath(__file__)))
rows = []
for d in sorted(glob.glob(ROOT + '/seeded/*/')):
    m = json.load(open(d + 'meta.json'))
    notes = m.get('needs_to_manifest', '')
    # first informative line of the sub-agent's notes
    line = ''
    for l in notes.split('\n'):
        l = l.strip().lstrip('#-* ').strip()
        if len(l) > 25: line = l; break
    line = re.sub(r'\s+', ' ', line)[:150].replace('|', '/')
    runs = m.get('checks_run', {})
    det = m.get('detected_by', [])
    inconc = sorted(k for k, r in runs.items() if r.get('exit') == 2)
    missed = sorted(k for k, r in runs.items() if r.get('exit') == 0)
    if m.get('retired'):
        rows.append(f"| {m['name']} | {m['breaks_property']} | {line} | *retired*: no longer a violation after fix bd4f506 (was detected by {', '.join(m.get('detected_by_before_retirement', []))}) |"); continue
    verdict = ', '.join(det) if det else ('**not detected** (exit 0: ' + ', '.join(missed) + ')' if missed and not inconc else '**inconclusive** (exit 2: ' + ', '.join(inconc) + ')')
    rows.append(f"| {m['name']} | {m['breaks_property']} | {line} | {verdict} |")
table = '| change | property | what it is (from the author\'s notes) | quick checks that exit 1 with a replay-confirmed violation |\n|---|---|---|---|\n' + '\n'.join(rows)
p = ROOT + '/DESIGN.md'; s = open(p).read()
a = s.index('<!-- SEEDED-TABLE-BEGIN -->') + len('<!-- SEEDED-TABLE-BEGIN -->'); b = s.index('<!-- SEEDED-TABLE-END -->')
open(p, 'w').write(s[:a] + '\n' + table + '\n' + s[b:])
print(len(rows), 'rows;', sum(1 for r in rows if 'retired' in r), 'retired;', sum(1 for r in rows if 'not detected' in r), 'not detected;', sum(1 for r in rows if 'inconclusive' in r), 'inconclusive')
